"""
Core of the deterministic simulator: seeding, process pool, evidence, replay,
known findings, shrinking driver.

One integer decides everything: VERIF_SEED -> master digest -> per-run
random.Random seeded from bytes (independent of PYTHONHASHSEED).  Nothing in
this module draws from a PRNG or reads a clock for a decision; wall-clock is
read only for evidence (wall_s) and for the batch time cap, which acts
*between* runs.
"""
import os
import sys
import json
import time
import hashlib
import random
import traceback
import faulthandler
import collections

VERIF = os.path.dirname(os.path.dirname(os.path.abspath(__file__)))
REPO = os.environ.get('VERIF_REPO', '/repo')
GUARD = 'TORCHTT_VERIF'

PINNED_ENV = {
    'OMP_NUM_THREADS': '1',
    'MKL_NUM_THREADS': '1',
    'OPENBLAS_NUM_THREADS': '1',
    'NUMEXPR_NUM_THREADS': '1',
    'PYTHONDONTWRITEBYTECODE': '1',
    'PYTHONWARNINGS': 'ignore',
    GUARD: '1',
}


def ensure_env():
    """Re-exec once so that hash seed, thread pins and PYTHONPATH are fixed
    before the interpreter (and torch) start."""
    if os.environ.get('_VERIF_REEXEC') == '1':
        return
    env = dict(os.environ)
    env.update(PINNED_ENV)
    env['PYTHONHASHSEED'] = os.environ.get('VERIF_HASHSEED', '0')
    pp = [REPO, VERIF] + [p for p in env.get('PYTHONPATH', '').split(':') if p and p not in (REPO, VERIF)]
    env['PYTHONPATH'] = ':'.join(pp)
    env['_VERIF_REEXEC'] = '1'
    os.execve(sys.executable, [sys.executable] + sys.argv, env)


def init_torch():
    import warnings
    warnings.filterwarnings('ignore')
    import torch
    torch.set_num_threads(1)
    try:
        torch.set_num_interop_threads(1)
    except RuntimeError:
        pass
    _guard_numpy_svd()
    return torch


def _guard_numpy_svd():
    """numpy.linalg.svd (the library's recovery backend) can spin forever inside LAPACK on a matrix that holds NaN/Inf
    (seen once in 13 200 histories: function_interpolate overflowed, the injected primary failure sent the NaN matrix
    to numpy, and the worker hung in dgesdd where no alarm can reach it).  In every process of the simulator numpy's
    SVD therefore refuses non-finite input at once with the LinAlgError it would otherwise raise at the end."""
    import numpy as np
    if getattr(np.linalg.svd, '_verif_guard', False):
        return
    real = np.linalg.svd

    def svd(a, *args, **kw):
        try:
            ok = bool(np.isfinite(np.asarray(a)).all())
        except Exception:
            ok = True
        if not ok:
            raise np.linalg.LinAlgError('SVD did not converge (non-finite input; refused by the simulator before LAPACK)')
        return real(a, *args, **kw)

    svd._verif_guard = True
    np.linalg.svd = svd


# --------------------------------------------------------------------------
# seeding

def master_digest(prop, tier, seed):
    return hashlib.sha256(('torchtt-sim|%s|%s|%d' % (prop, tier, seed)).encode()).digest()


def run_rng(prop, tier, seed, i):
    h = hashlib.sha256(master_digest(prop, tier, seed) + b'|' + str(i).encode()).digest()
    return random.Random(h)


def digest_of(obj):
    """sha256 of a canonical JSON dump (sorted keys)."""
    return hashlib.sha256(json.dumps(obj, sort_keys=True, default=str).encode()).hexdigest()


class EventLog:
    """Event log of one run.  Only its digest (and optionally its text) is
    kept; logging never draws from a PRNG or reads a clock."""

    def __init__(self, keep=False):
        self.h = hashlib.sha256()
        self.keep = keep
        self.lines = []
        self.n = 0

    def add(self, *parts):
        s = '|'.join(str(p) for p in parts)
        self.h.update(s.encode())
        self.h.update(b'\n')
        self.n += 1
        if self.keep:
            self.lines.append(s)

    def digest(self):
        return self.h.hexdigest()


# --------------------------------------------------------------------------
# result containers (plain dicts so they pickle cheaply)

def new_result(i):
    return {'i': i, 'viol': [], 'harness': [], 'stats': {}, 'keys': [], 'digest': '', 'sample': None, 'near': []}


def bump(stats, key, n=1):
    stats[key] = stats.get(key, 0) + n


def violation(prop, oracle, op, field, msg, desc, extra=None):
    v = {'property': prop, 'oracle': oracle, 'op': op, 'field': field, 'msg': msg, 'desc': desc}
    if extra:
        v['extra'] = extra
    return v


def vclass(v):
    return (v['property'], v['oracle'], v['op'], v['field'])


# --------------------------------------------------------------------------
# pool

_WORKER = {}


def _worker_chunk(args):
    modname, prop, tier, seed, idxs, opts, timeout = args
    faulthandler.enable()
    faulthandler.dump_traceback_later(timeout, exit=True)
    try:
        init_torch()
        import importlib
        mod = importlib.import_module(modname)
        out = []
        for i in idxs:
            res = new_result(i)
            try:
                rng = run_rng(prop, tier, seed, i)
                mod.run_one(rng, tier, res, opts)
            except Exception:
                res['harness'].append(traceback.format_exc())
            out.append(res)
        return out
    finally:
        faulthandler.cancel_dump_traceback_later()


def _isolated_child(conn, args):
    try:
        out = _worker_chunk(args)
        conn.send(out)
    except BaseException as e:  # noqa
        try:
            conn.send([{'i': args[4][0], 'viol': [], 'harness': ['isolated child: %r' % (e,)], 'stats': {}, 'keys': [], 'digest': '', 'sample': None, 'near': []}])
        except Exception:
            pass
    finally:
        conn.close()


def run_isolated(modname, prop, tier, seed, idxs, opts, timeout=300):
    """Run each index in its own forked process (used after a worker died, to
    find the run that kills the interpreter).  A child that dies from a signal
    becomes a CRASH violation if the check module knows how to describe it."""
    import importlib
    import multiprocessing as mp
    ctx = mp.get_context('fork')
    mod = importlib.import_module(modname)
    results, harness = [], []
    for i in idxs:
        parent, child = ctx.Pipe(duplex=False)
        import tempfile
        tfd, tfile = tempfile.mkstemp(prefix='verif-trace-', suffix='.json')
        os.close(tfd)
        opts = dict(opts, _trace_file=tfile)
        pr = ctx.Process(target=_isolated_child, args=(child, (modname, prop, tier, seed, [i], opts, timeout)))
        pr.start()
        child.close()
        got = None
        try:
            if parent.poll(timeout + 30):
                got = parent.recv()
        except (EOFError, OSError):
            got = None
        pr.join(5)
        if pr.is_alive():
            pr.kill()
            pr.join()
        if got is not None:
            results.extend(got)
            try:
                os.unlink(tfile)
            except OSError:
                pass
            continue
        code = pr.exitcode
        res = new_result(i)
        if hasattr(mod, 'crash_violation') and code is not None and code < 0:
            try:
                res['viol'].append(mod.crash_violation(run_rng(prop, tier, seed, i), tier, opts, -code))
                res['stats'] = {'runs': 1, 'probe.interpreter_crash': 1}
            except Exception:
                res['harness'].append('run %d killed its process (exit %s); no description available' % (i, code))
        else:
            res['harness'].append('run %d killed its process (exit %s)' % (i, code))
        results.append(res)
    for r in results:
        pass
    import glob
    for f in glob.glob(os.path.join(tempfile.gettempdir(), 'verif-trace-*.json')):
        try:
            os.unlink(f)
        except OSError:
            pass
    return results, harness


def run_batch(modname, prop, tier, seed, n_runs, workers, opts=None, chunk=None, time_cap=None, chunk_timeout=900, start=0):
    """Run indices start..start+n_runs-1 on a fork pool; results returned in
    index order so the worker count cannot change any output."""
    from concurrent.futures import ProcessPoolExecutor, wait, FIRST_COMPLETED
    import multiprocessing as mp
    opts = opts or {}
    if chunk is None:
        chunk = max(1, min(200, n_runs // (workers * 6) or 1))
    chunks = [list(range(s, min(s + chunk, start + n_runs))) for s in range(start, start + n_runs, chunk)]
    t0 = time.time()
    results = []
    harness = []
    if workers <= 1:
        for c in chunks:
            if time_cap and time.time() - t0 > time_cap:
                break
            results.extend(_worker_chunk((modname, prop, tier, seed, c, opts, chunk_timeout)))
        results.sort(key=lambda r: r['i'])
        return results, harness
    ctx = mp.get_context('fork')
    pending = set()
    it = iter(chunks)
    stop = False
    fut_chunk = {}
    broken = []
    with ProcessPoolExecutor(max_workers=workers, mp_context=ctx) as ex:
        try:
            while True:
                while not stop and len(pending) < workers * 2:
                    if time_cap and time.time() - t0 > time_cap:
                        stop = True
                        break
                    try:
                        c = next(it)
                    except StopIteration:
                        stop = True
                        break
                    fu = ex.submit(_worker_chunk, (modname, prop, tier, seed, c, opts, chunk_timeout))
                    fut_chunk[fu] = c
                    pending.add(fu)
                if not pending:
                    break
                done, pending = wait(pending, timeout=chunk_timeout + 60, return_when=FIRST_COMPLETED)
                if not done:
                    harness.append('pool wait timed out')
                    for f in pending:
                        f.cancel()
                    break
                for f in done:
                    try:
                        results.extend(f.result())
                    except Exception as e:
                        broken.append(fut_chunk[f])
                        stop = True
        except Exception as e:  # BrokenProcessPool etc.
            harness.append('pool failure: %r' % (e,))
    if broken:
        # a worker died (segfault, faulthandler timeout): every in-flight chunk is lost with it.  Re-run those
        # indices one per process to find the culprit; the rest of the batch is abandoned (evidence says how many ran).
        idxs = sorted(i for c in broken for i in c)
        r2, h2 = run_isolated(modname, prop, tier, seed, idxs, opts, timeout=min(chunk_timeout, 300))
        results.extend(r2)
        harness.extend(h2)
        if not any(r['viol'] or r['harness'] for r in r2):
            harness.append('a worker died but no single run reproduces it in isolation (indices %s..%s)' % (idxs[0], idxs[-1]))
    results.sort(key=lambda r: r['i'])
    return results, harness


# --------------------------------------------------------------------------
# known findings

def load_known():
    p = os.path.join(VERIF, 'known_findings.json')
    if not os.path.exists(p):
        return []
    with open(p) as f:
        return json.load(f).get('findings', [])


def match_known(v, known):
    """A finding matches a violation when property and every key of its
    `match` dict agree with the (minimised) violation.  `match` keys:
    oracle, op, field (exact) and `pred` (name of a predicate in
    sim.findings)."""
    from sim import findings
    for k in known:
        if k.get('status') != 'open':
            continue  # fixed entries are documentation and suppress nothing
        if k['property'] != v['property']:
            continue
        m = k.get('match', {})
        ok = True
        for key in ('oracle', 'op', 'field'):
            if key in m and m[key] != v.get(key):
                ok = False
        if ok and 'pred' in m:
            try:
                ok = bool(getattr(findings, m['pred'])(v))
            except Exception:
                ok = False
        if ok:
            return k
    return None


# --------------------------------------------------------------------------
# evidence

def write_evidence(prop, tier, seed, level, coverage, wall_s, violations, assumptions, extra=None):
    os.makedirs(os.path.join(VERIF, 'evidence'), exist_ok=True)
    ev = {
        'property_id': prop,
        'tier': tier,
        'seed': seed,
        'level': level,
        'coverage': coverage,
        'assumptions': assumptions,
        'wall_s': round(wall_s, 2),
        'violations': violations,
    }
    if extra:
        ev.update(extra)
    path = os.path.join(VERIF, 'evidence', prop + '.json')
    tmp = path + '.tmp'
    with open(tmp, 'w') as f:
        json.dump(ev, f, indent=1, sort_keys=True, default=str)
    os.replace(tmp, path)
    return path


def merge_stats(results):
    tot = collections.Counter()
    for r in results:
        for k, v in r['stats'].items():
            tot[k] += v
    return dict(sorted(tot.items()))


def distinct_keys(results):
    s = set()
    for r in results:
        s.update(r['keys'])
    return s


# --------------------------------------------------------------------------
# replay files

def write_replay(prop, seed, i, v, tag=''):
    rdir = os.environ.get('VERIF_REPLAY_DIR') or os.path.join(VERIF, 'replays')
    os.makedirs(rdir, exist_ok=True)
    name = '%s-%d-%d%s.json' % (prop, seed, i, tag)
    path = os.path.join(rdir, name)
    with open(path, 'w') as f:
        json.dump({'property': prop, 'seed': seed, 'run': i, 'class': list(vclass(v)), 'msg': v['msg'],
                   'desc': v['desc']}, f, indent=1, sort_keys=True, default=str)
    return path


def read_replay(path):
    with open(path) as f:
        return json.load(f)
