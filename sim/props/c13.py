"""
C13 - elementwise division inverts elementwise multiplication (AMEn with a
diagonal operator), for every internal random stream, optional
preconditioner / starting tensor, under SVD-failure schedules; division by a
scalar is exact and leaves its operand intact (exploration).
"""
import math

import numpy as np
import torch

import torchtt
from torchtt import TT

from sim import core, gen, seams, svdfault
from sim.history import take_snap, check_unchanged, check_wf

PROP = 'C13'
LEVEL = 'exploration'
EVAL_KEY = 'runs'
C = 10.0
TIERS = {
    'quick': {'runs': 3000, 'opts': {}, 'chunk': 10},
    'thorough': {'runs': 150000, 'opts': {}, 'chunk': 60, 'time_cap': 1500},
}
RULE = ('per run: x random rank 1..4; y in {1+z^2, 2+z/2, 1.5+z+z^2/2} with z of rank 1..3 scaled to max|z|=1 (so y>=1); order 2..5; '
        'mode sizes 1..10; API in {x/y, scalar/y, elementwise_divide plain / preconditioner c / with starting tensor, x/scalar}; eps '
        'fixed by the API (1e-12) or 10^-k, k in 4..11; global torch PRNG seeded per run; primary SVD failures on 25% of runs (at seeded call indices, or at seeded fractions of the measured number of SVD calls so that late calls fail too); '
        '25% of runs are preceded by another division of the same kind and shape in the same process (history independence); distinct by (api, order, divisor form, eps decade, scalar kind, fault kind, singleton flag)')
ASSUMPTIONS = ['single-threaded BLAS', 'oracle constant C=10: ||q*y-x|| <= 10*eps*||x|| + 2000*u*||x||',
               'divisors are bounded away from zero by construction (y >= 1)']
REAL = ['TT.__truediv__, TT.__rtruediv__, torchtt.elementwise_divide, _division.amen_divide (working tree)', 'torch']
STUB = ['failure of torch.linalg.svd at planned call indices']


def gen_case(rng):
    api = rng.choices(['op', 'rdiv', 'ew', 'ew_prec', 'ew_start', 'scalar'], [3, 2, 3, 2, 3, 2])[0]
    d = rng.choice([2, 2, 3, 3, 4, 5])
    nmax = {2: 10, 3: 10, 4: 8, 5: 6}[d]
    N = [rng.randint(1, nmax) for _ in range(d)]
    p = {'api': api, 'N': N, 'vseed': rng.getrandbits(31), 'tseed': rng.getrandbits(31)}
    p['Rx'] = [1] + [rng.randint(1, 4) for _ in range(d - 1)] + [1]
    p['Rz'] = [1] + [rng.randint(1, 3) for _ in range(d - 1)] + [1]
    p['yform'] = rng.choice(['1+z2', '2+z/2', '1.5+z+z2/2'])
    # range of the divisor: max|z| = 1 gives y in [1, 2] (reciprocal numerically low rank); a wide range (max|z| = 5..15,
    # y up to ~200, still >= 1) makes the quotient need high TT ranks, which is where rank caps and sweep limits bite
    p['zmax'] = 1.0
    if rng.random() < 0.15:
        p['zmax'] = rng.choice([5.0, 10.0, 15.0])
        p['yform'] = '1+z2'
        if rng.random() < 0.6:
            d = 4
            p['N'] = N = [rng.randint(7, 9) for _ in range(d)]
            p['Rx'] = [1] + [rng.randint(1, 4) for _ in range(d - 1)] + [1]
            p['Rz'] = [1] + [rng.randint(2, 3) for _ in range(d - 1)] + [1]
    p['eps'] = 1e-12 if api in ('op', 'rdiv') else 10.0 ** (-rng.randint(4, 11))
    p['sk'] = rng.choice(['int', 'float', 'float', 't0', 't1'])
    p['sv'] = rng.choice([2, -3, 0.5, 1.25, 7, -1, 1e-3, 1e6])
    if p['sk'] == 'int':
        p['sv'] = rng.choice([2, -3, 7, -1])
    p['start_rank'] = rng.choice([1, 3])
    # kind of starting tensor for ew_start: random low rank, or the exact quotient plus a relative perturbation between
    # 10*eps and 1e-6 (a warm start from a coarser solve), or exactly the quotient, or zeros
    p['start_kind'] = rng.choice(['random', 'random', 'near', 'near', 'exact', 'zeros'])
    p['start_near'] = rng.uniform(0.0, 1.0)
    r = rng.random()
    if r < 0.2 and api != 'scalar':
        pts = sorted(set(rng.randint(0, 60) for _ in range(rng.randint(1, 4))))
        p['plan'] = {'P': pts, 'Q': [], 'all': False, 'kind': 'subset'}
        if rng.random() < 0.5:
            p['plan'] = {'P': [], 'frac': sorted(rng.choice([0.0, 0.05, 0.3, 0.5, 0.8, 0.95, 0.999]) for _ in range(rng.randint(1, 3))), 'Q': [], 'all': False, 'kind': 'fraction'}
    elif r < 0.25 and api != 'scalar':
        p['plan'] = {'P': [], 'Q': [], 'all': True, 'kind': 'all'}
    else:
        p['plan'] = None
    # history dimension: an earlier division of the same kind and shape (other scalar / other numerator) in the same
    # process; the checked call must not depend on it (process-global caches, reused work lists)
    p['prelude'] = {'sv': rng.choice([3, -2.0, 0.25, 5]), 'sk': rng.choice(['int', 'float', 't0'])} if rng.random() < 0.25 else None
    if p['prelude'] and p['prelude']['sk'] == 'int':
        p['prelude']['sv'] = rng.choice([3, 5, -2])
    return p


def scalar_of(p):
    k, v = p['sk'], p['sv']
    if k == 'int':
        return int(v)
    if k == 'float':
        return float(v)
    if k == 't0':
        return torch.tensor(float(v), dtype=torch.float64)
    return torch.tensor([float(v)], dtype=torch.float64)


def build(p):
    g = gen.vgen(p['vseed'])
    N = p['N']
    d = len(N)
    x = TT(gen.rand_cores(N, p['Rx'], 'f64', g))
    z = TT(gen.rand_cores(N, p['Rz'], 'f64', g))
    zmax = float(gen.dense(z).abs().max())
    z = z * (p.get('zmax', 1.0) / max(zmax, 1e-300))
    one = torchtt.ones(N)
    if p['yform'] == '1+z2':
        y = one + z * z
    elif p['yform'] == '2+z/2':
        y = 2.0 * one + z * 0.5
    else:
        y = 1.5 * one + z + (z * z) * 0.5
    start = None
    if p['api'] == 'ew_start':
        r = p['start_rank']
        sk = p.get('start_kind', 'random')
        if sk in ('near', 'exact'):
            qd = gen.dense(x) / gen.dense(y)
            start = TT(qd, eps=1e-14) if d > 1 else TT(qd)
            if sk == 'near':
                lo, hi = math.log10(10 * p['eps']), -6.0
                delta = 10 ** (lo + (max(hi, lo) - lo) * p.get('start_near', 0.5))
                pert = TT(gen.rand_cores(N, [1] * (d + 1), 'f64', g))
                start = start + pert * (delta * gen.fro(qd) / max(gen.fro(gen.dense(pert)), 1e-300))
        elif sk == 'zeros':
            start = torchtt.zeros(N) + torchtt.zeros(N)
        else:
            start = TT(gen.rand_cores(N, [1] + [r] * (d - 1) + [1], 'f64', g))
    return x, y, start


def family(p):
    return ('wide|' if p.get('zmax', 1.0) > 1 else '') + '%s|d%d|%s|e%d|%s|%s|%s' % (p['api'], len(p['N']), p['yform'], round(-math.log10(p['eps'])), p['sk'] if p['api'] in ('rdiv', 'scalar') else '',
                                       p['plan']['kind'] if p['plan'] else 'nofault', 's' if 1 in p['N'] else '') + ('|h' if p.get('prelude') else '')


def call(p, x, y, start):
    api = p['api']
    if api == 'op':
        return x / y
    if api == 'rdiv':
        return scalar_of(p) / y
    if api == 'ew':
        return torchtt.elementwise_divide(x, y, eps=p['eps'])
    if api == 'ew_prec':
        return torchtt.elementwise_divide(x, y, eps=p['eps'], preconditioner='c')
    if api == 'ew_start':
        return torchtt.elementwise_divide(x, y, eps=p['eps'], starting_tensor=start)
    return x / scalar_of(p)


def exec_case(p, res):
    stats = res['stats']
    out = []
    x, y, start = build(p)
    snaps = [(x, take_snap(x), 'numerator'), (y, take_snap(y), 'divisor')]
    if start is not None:
        snaps.append((start, take_snap(start), 'starting tensor'))
    fam = family(p)
    res['keys'].append(fam)
    desc = {'case': p}
    api = p['api']
    if p['plan'] and p['plan'].get('frac') is not None:
        def _count():
            seams.seed_global(p['tseed'])
            return call(p, x, y, start)
        p = dict(p, plan=svdfault.resolve_fractions(p['plan'], _count))
    if p.get('prelude'):
        # whatever the earlier call returns or raises is another run's business
        seams.seed_global(p['tseed'] ^ 0x5a5a5a)
        try:
            pp = dict(p, sv=p['prelude']['sv'], sk=p['prelude']['sk'])
            call(pp, y if api != 'scalar' else x, y, None if start is None else start.clone())
        except Exception:
            core.bump(stats, 'history.prelude_raised')
        core.bump(stats, 'probe.call_with_history')
    seams.seed_global(p['tseed'])
    q, exc, f = svdfault.run_with_plan(lambda: call(p, x, y, start), p['plan'] or {})
    svdfault.branch_stats(f, stats)
    core.bump(stats, 'api.' + api)
    if p['plan'] and f.fired_primary == 0:
        core.bump(stats, 'probe.fault_plan_not_reached')
    for obj, snap, what in snaps:
        if api == 'rdiv' and what == 'numerator':
            continue
        r = check_unchanged(obj, snap)
        if r is not None:
            out.append(core.violation(PROP, 'OPERAND', api, r[0], '%s changed: %s' % (what, r[1]), desc))
    if exc is not None:
        out.append(core.violation(PROP, 'RAISED', api, type(exc).__name__, '%s raised %s: %s' % (api, type(exc).__name__, str(exc)[:120]), desc))
        return out, None
    if not isinstance(q, TT):
        out.append(core.violation(PROP, 'RESULT', api, 'type', 'returned %s' % type(q).__name__, desc))
        return out, None
    r = check_wf(q, do_full=True)
    if r is not None:
        out.append(core.violation(PROP, 'RESULT', api, 'wf-' + r[0], r[1], desc))
        return out, None
    if q.is_ttm or gen.ints(q.N) != list(p['N']):
        out.append(core.violation(PROP, 'RESULT', api, 'shape', 'q.N=%s expected %s' % (q.N, p['N']), desc))
        return out, None
    qd = gen.dense(q)
    u = gen.UNIT_ROUNDOFF['f64']
    if api == 'scalar':
        s = float(scalar_of(p))
        ref = gen.dense(x) / s
        err = gen.fro(qd - ref)
        nr = gen.fro(ref)
        ratio = err / max(nr, 1e-300) / u
        rep = 1.0      # roundoff is relative to the magnitude of the representation (chains of rank>1 cores cancel)
        for c_ in x.cores:
            rep *= gen.fro(c_)
        if not err <= 50 * u * max(nr, rep / abs(s)) * len(p['N']):
            out.append(core.violation(PROP, 'SCALAR-EXACT', api, 'value', 'x/scalar differs from the dense quotient by %.3g relative' % (err / max(nr, 1e-300)), desc))
        return out, None
    target = gen.dense(x) if api != 'rdiv' else torch.full_like(qd, float(scalar_of(p)))
    nt = gen.fro(target)
    err = gen.fro(qd * gen.dense(y) - target)
    ratio = err / (p['eps'] * nt) if nt > 0 else 0.0
    rep = 1.0      # magnitude of the numerator's representation (roundoff scale)
    for c_ in x.cores:
        rep *= gen.fro(c_)
    bound = C * p['eps'] * nt + 2000 * u * max(nt, rep if api != 'rdiv' else nt)
    if not err <= bound:
        out.append(core.violation(PROP, 'ACCURACY', api, 'error', '||q*y-x||/||x|| = %.3g = %.3g * eps (eps=%.0e), ranks %s' % (err / max(nt, 1e-300), ratio, p['eps'], gen.ints(q.R)), desc))
    elif ratio > 0.5 and p['eps'] >= 1e-11:
        res['near'].append((round(ratio, 3), fam))
        core.bump(stats, 'probe.ratio_above_1')
    return out, ratio


def run_one(rng, tier, res, opts):
    p = gen_case(rng)
    log = core.EventLog()
    viol, ratio = exec_case(p, res)
    for v in viol:
        res['viol'].append(v)
        log.add('VIOL', v['oracle'], v['field'])
    core.bump(res['stats'], 'runs')
    log.add('case', core.digest_of(p), ratio, sorted(res['stats'].items()))
    res['digest'] = log.digest()
    if res['i'] < 3:
        res['sample'] = {'run': res['i'], 'case': p, 'err_over_eps': ratio}


def replay(desc, opts):
    res = core.new_result(-1)
    viol, ratio = exec_case(desc['case'], res)
    return viol


def shrink_candidates(desc):
    p = desc['case']
    if p.get('plan'):
        yield {'case': dict(p, plan=None)}
    if p.get('prelude'):
        yield {'case': dict(p, prelude=None)}
    d = len(p['N'])
    if d > 2:
        yield {'case': dict(p, N=p['N'][:-1], Rx=p['Rx'][:-2] + [1], Rz=p['Rz'][:-2] + [1])}
    if any(n > 2 for n in p['N']):
        yield {'case': dict(p, N=[min(n, 2) for n in p['N']])}
    if any(r > 1 for r in p['Rx']):
        yield {'case': dict(p, Rx=[1] * (d + 1))}
    if any(r > 1 for r in p['Rz']):
        yield {'case': dict(p, Rz=[1] * (d + 1))}
    if p['yform'] != '2+z/2':
        yield {'case': dict(p, yform='2+z/2')}
