"""
C02 - rounding: error <= eps*||x||, ranks never grow, operand intact; under
every schedule of primary-SVD failures (fault_enumeration, narrow).
"""
import math

import numpy as np
import torch

import torchtt
from torchtt import TT

from sim import core, gen, seams, svdfault
from sim.history import take_snap, check_unchanged, check_wf
from sim.props.c01 import orth

PROP = 'C02'
LEVEL = 'fault_enumeration'
EVAL_KEY = 'roundings'
TIERS = {
    'quick': {'runs': 20000, 'opts': {}, 'chunk': 100},
    'thorough': {'runs': 800000, 'opts': {}, 'chunk': 200, 'time_cap': 1200},
}
RULE = ('seeded TT tensors / TT matrices (random, over-parameterised x+x and x+0*y, zero-padded ranks, rank-deficient cores, cores '
        'scaled by 10^+-8 with compensation, zero tensor, super-diagonal spectra saturating every bond, badly conditioned gauges), '
        'each rounded fault-free and under every single primary-SVD failure, all-fail, two subsets, one double fault; evaluations '
        '= round() calls; distinct by (class, order, kind, dtype, eps class, rmax kind, plan kind)')
ASSUMPTIONS = ['inputs are sampled; the exhaustively enumerated dimension is the set of single primary-SVD failures of each call',
               'numpy.linalg.svd is a correct SVD',
               'fault vs fault-free agreement is asserted only for generic (tie-free) spectra, with a tolerance scaled by ||x||/gap at the truncation points, and skipped where that gap (less twice the truncation error) is below 1e-3*||x|| or where the two runs chose different ranks (both satisfy the contract then)']
REAL = ['TT.round, round_tt, lr_orthogonal, rank_chop, SVD wrapper (working tree)', 'torch.linalg.svd/qr', 'numpy.linalg.svd']
STUB = ['the failure of torch.linalg.svd']


def gen_case(rng):
    cls = rng.choices(['random', 'overparam', 'zero_y', 'padded', 'deficient', 'scaled', 'zero', 'saturate', 'gauge', 'inflated', 'tie'],
                      [3, 3, 2, 2, 2, 3, 1, 3, 2, 3, 2])[0]
    dt = rng.choice(['f64', 'f64', 'f64', 'c128'])
    d = rng.choice([1, 2, 2, 3, 3, 4, 4, 5, 6, 7])
    nmax = {1: 6, 2: 6, 3: 6, 4: 5, 5: 4, 6: 3, 7: 3}[d]
    ttm = rng.random() < 0.3 and d <= 5
    p = {'cls': cls, 'dt': dt, 'vseed': rng.getrandbits(31), 'ttm': ttm}
    p['N'] = [rng.randint(1, nmax) if rng.random() < 0.85 else 1 for _ in range(d)]
    if ttm:
        p['N'] = [min(n, 4) for n in p['N']]
        p['M'] = [rng.randint(1, min(nmax, 4)) for _ in range(d)]
    p['R'] = [1] + [rng.randint(1, 4) for _ in range(d - 1)] + [1]
    r = rng.random()
    if r < 0.1:
        p['eps'] = 0.0
    elif r < 0.25:
        p['eps'] = 10 ** rng.uniform(-14, -10)
    else:
        p['eps'] = 10 ** rng.uniform(-9, -0.3)
    p['rmax'] = None
    if rng.random() < 0.3:
        p['rmax'] = rng.randint(1, 4) if rng.random() < 0.5 else [1] + [rng.randint(1, 4) for _ in range(d - 1)] + [1]
    if cls == 'saturate':
        d = rng.choice([2, 3, 3, 4])
        m = (d - 1) ** 2 + rng.randint(0, 2)
        big = rng.randint(1, 2)
        p.update({'N': [big + m] * d, 'ttm': False, 'big': big, 'm': m, 'eps': 10 ** rng.uniform(-3, -0.7),
                  'margin': rng.choice([0.999, 0.99, 1.001]), 'rmax': None, 'cond': rng.choice([1.0, 1e3, 1e6])})
        p.pop('M', None)
    if cls in ('scaled', 'gauge'):
        p['scale'] = rng.choice([1e4, 1e8])
    # the contract is relative: the whole tensor may be tiny or huge (10^-+k, k up to 30; far below machine epsilon too)
    p['global_scale'] = rng.choice([0, 0, 0, -30, -20, -17, -12, 12, 25])
    # history dimension: the operand is itself the output of an earlier round() whose core k was then replaced through
    # set_core by a rank-deficient core; rounding must depend on the cores only, not on what the object went through
    p['history'] = None
    if cls in ('random', 'overparam', 'padded', 'inflated') and rng.random() < 0.35:
        p['history'] = {'eps1': rng.choice([1e-13, 1e-6, 1e-2]), 'k': rng.randint(0, 6), 'vseed': rng.getrandbits(31), 'dup': rng.random() < 0.7}
    if cls == 'inflated':
        # k-fold sum with singleton modes: ranks >= 10 next to mode size 1 make the SVD input tall (transposed branch)
        p['fold'] = rng.choice([3, 4, 5])
        p['R'] = [1] + [rng.randint(2, 4) for _ in range(len(p['N']) - 1)] + [1]
        for k in range(len(p['N'])):
            if rng.random() < 0.5:
                p['N'][k] = 1
                if p['ttm']:
                    p['M'][k] = 1
    if cls == 'tie':
        from sim.props.c01 import PYTH
        spec, nrm = rng.choice(PYTH[:-1])
        d = rng.choice([2, 2, 3])
        p.update({'N': [len(spec) + rng.randint(0, 1)] * d, 'ttm': False, 'spec': spec, 'drop': rng.randint(1, len(spec) - 1), 'dt': 'f64', 'rmax': None})
        p.pop('M', None)
        tail = math.sqrt(sum(v * v for v in spec[len(spec) - p['drop']:]))
        p['eps'] = tail / math.sqrt(sum(v * v for v in spec)) * math.sqrt(d - 1)
    return p


AMP = {'v': 1.0}


def build(p):
    """Returns (x, known ranks or None, generic)."""
    AMP['v'] = 1.0
    g = gen.vgen(p['vseed'])
    dt = p['dt']
    N = p['N']
    d = len(N)
    M = p.get('M') if p['ttm'] else None
    cls = p['cls']
    known = None
    generic = True
    if cls == 'saturate':
        n = N[0]
        delta = p['eps'] / math.sqrt(d - 1)
        s = [1.0 + 0.3 * i for i in range(p['big'])][::-1]
        nb = math.sqrt(sum(v * v for v in s))
        t = p['margin'] * delta
        tot = nb / math.sqrt(max(1e-12, 1 - p['m'] * t * t))
        s = s + [t * tot] * p['m']
        r = len(s)
        tdt = gen.DTYPES[dt]
        cores = []
        for k in range(d):
            c = torch.zeros([1 if k == 0 else r, n, 1 if k == d - 1 else r], dtype=tdt)
            for i in range(r):
                c[0 if k == 0 else i, i, 0 if k == d - 1 else i] = s[i] if k == 0 else 1.0
            q = orth(n, dt, g)
            c = torch.einsum('ijk,lj->ilk', c, q)
            cores.append(c)
        # badly conditioned gauge between neighbouring cores (value unchanged)
        if p.get('cond', 1.0) > 1:
            for k in [p['vseed'] % (d - 1)]:     # one bond only: conditioning of the representation multiplies per bond
                u_ = orth(r, dt, g)
                v_ = orth(r, dt, g)
                sv = torch.logspace(0, math.log10(p['cond']), r, dtype=torch.float64).to(tdt)
                T = u_ @ torch.diag(sv) @ v_
                Ti = v_.conj().t() @ torch.diag(1.0 / sv) @ u_.conj().t()
                cores[k] = torch.einsum('ijk,kl->ijl', cores[k], T)
                cores[k + 1] = torch.einsum('ij,jkl->ikl', Ti, cores[k + 1])
        x = TT(cores)
        known = [1] + [r] * (d - 1) + [1]
        generic = False
        return x, known, generic
    if cls == 'tie':
        spec = [float(v) for v in p['spec']]
        r = len(spec)
        n = N[0]
        cores = []
        for k in range(d):
            c = torch.zeros([1 if k == 0 else r, n, 1 if k == d - 1 else r], dtype=gen.DTYPES[dt])
            for i in range(r):
                c[0 if k == 0 else i, i, 0 if k == d - 1 else i] = spec[i] if k == 0 else 1.0
            cores.append(c)
        return TT(cores), [1] + [r] * (d - 1) + [1], False
    base = TT(gen.rand_cores(N, p['R'], dt, g, M))
    if cls == 'inflated':
        x = base
        for _ in range(p['fold'] - 1):
            x = x + base
        return x, p['R'], True
    if cls == 'random':
        x = base
        known = p['R']
    elif cls == 'overparam':
        x = base + base
        known = p['R']
    elif cls == 'zero_y':
        y = TT(gen.rand_cores(N, [1] + [2] * (d - 1) + [1], dt, g, M))
        x = base + (y - y)
        known = p['R']
        # the stored terms +y and -y cancel exactly in value but not in roundoff: the attainable accuracy is relative to
        # the magnitude of the stored terms, not to ||x||
        AMP['v'] = 1.0 + 2.0 * gen.fro(gen.dense(y)) / max(gen.fro(gen.dense(base)), 1e-300)
    elif cls == 'padded':
        cores = []
        for k, c in enumerate(base.cores):
            pl = 0 if k == 0 else 2
            pr = 0 if k == d - 1 else 2
            padspec = (0, pr) + (0, 0) * (c.dim() - 2) + (0, pl)
            cores.append(torch.nn.functional.pad(c, padspec))
        x = TT(cores)
        known = p['R']
    elif cls == 'deficient':
        cores = [c.clone() for c in base.cores]
        for k in range(d - 1):
            if cores[k].shape[-1] > 1:
                cores[k][..., -1] = cores[k][..., 0] * 2.0       # last rank slice dependent on the first
        x = TT(cores)
        known = [1] + [max(1, r - 1) if r > 1 else 1 for r in p['R'][1:-1]] + [1] if d > 1 else [1, 1]
        known = p['R']
    elif cls == 'scaled':
        cores = [c.clone() for c in base.cores]
        sc = p['scale']
        for k in range(d):
            cores[k] = cores[k] * (sc if k % 2 == 0 else 1.0 / sc)
        if d % 2 == 1 and d > 1:
            cores[-1] = cores[-1] / sc
        x = TT(cores)
        known = p['R']
    elif cls == 'gauge':
        cores = [c.clone() for c in base.cores]
        tdt = gen.DTYPES[dt]
        for k in ([p['vseed'] % (d - 1)] if d > 1 else []):     # one bond only
            r = cores[k].shape[-1]
            u_ = orth(r, dt, g)
            v_ = orth(r, dt, g)
            sv = torch.logspace(0, math.log10(p['scale']), r, dtype=torch.float64).to(tdt) if r > 1 else torch.ones(1, dtype=tdt)
            T = u_ @ torch.diag(sv) @ v_
            Ti = v_.conj().t() @ torch.diag(1.0 / sv) @ u_.conj().t()
            cores[k] = torch.tensordot(cores[k], T, dims=([cores[k].dim() - 1], [0]))
            cores[k + 1] = torch.tensordot(Ti, cores[k + 1], dims=([1], [0]))
        x = TT(cores)
        known = p['R']
    elif cls == 'zero':
        x = torchtt.zeros([(m, n) for m, n in zip(M, N)] if M else list(N), dtype=gen.DTYPES[dt])
        x = x + x
        known = [1] * (d + 1)
    else:
        raise ValueError(cls)
    return x, known, generic


LAST = {'ratio': None}


def contract(p, x, y, ref, known):
    d = len(x.N)
    dt = p['dt']
    if not isinstance(y, TT):
        return 'type', 'round returned %s' % type(y).__name__, None
    r = check_wf(y, do_full=True)
    if r is not None:
        return 'wf-' + r[0], r[1], None
    if gen.ints(y.N) != gen.ints(x.N) or bool(y.is_ttm) != bool(x.is_ttm) or (x.is_ttm and gen.ints(y.M) != gen.ints(x.M)):
        return 'shape', 'shape changed: %s -> %s' % (x.N, y.N), None
    if y.cores[0].dtype != x.cores[0].dtype:
        return 'dtype', 'dtype changed', None
    if y is x or y.cores is x.cores:
        return 'alias', 'round returned its operand / its cores list', None
    ids = set(id(c) for c in x.cores)
    if any(id(c) in ids for c in y.cores):
        return 'alias', 'result shares a core tensor object with the operand', None
    Rx = gen.ints(x.R)
    Ry = gen.ints(y.R)
    for k in range(d + 1):
        if Ry[k] > Rx[k]:
            return 'rank_grew', 'R %s -> %s' % (Rx, Ry), None
    rmax = p['rmax']
    rm = None
    if rmax is not None:
        rm = rmax if isinstance(rmax, list) else [1] + [rmax] * (d - 1) + [1]
        for k in range(1, d):
            if Ry[k] > rm[k]:
                return 'rmax', 'R=%s exceeds rmax=%s' % (Ry, rm), None
    e = p['eps']
    if known is not None and e >= 1e-9 * math.sqrt(d) and p['cls'] not in ('scaled', 'gauge'):
        for k in range(1, d):
            if Ry[k] > known[k]:
                return 'rank_exact', 'R=%s exceeds the exact unfolding ranks %s' % (Ry, known), None
    binding = rm is not None and any(Ry[k] == rm[k] and Rx[k] > rm[k] for k in range(1, d))
    full = gen.dense(y)
    err = gen.fro(full - ref)
    nx = gen.fro(ref)
    u = gen.UNIT_ROUNDOFF[dt]
    ratio = None
    LAST['ratio'] = None
    if not binding:
        # roundoff allowance: the QR/SVD sweeps are backward stable with respect to the *cores*, so the attainable
        # accuracy is relative to the magnitude of the representation, prod_k ||G_k||_F (>= ||x||; much larger when the
        # stored terms cancel, e.g. x + (y - y), badly conditioned gauges, chains of rank>1 cores over singleton modes)
        rep = 1.0
        for c_ in x.cores:
            rep *= gen.fro(c_)
        rep = max(rep * AMP['v'], nx)
        bound = e * nx * (1 + 1e-9) + 200 * u * rep * math.sqrt(d)
        ratio = err / (e * nx) if e * nx > 0 else 0.0
        LAST['ratio'] = ratio
        if not err <= bound:
            return 'error', 'error %.6g > eps*||x|| = %.6g (ratio %.4f), R %s -> %s' % (err, e * nx, ratio, Rx, Ry), ratio
    return None


def exec_case(p, res, plans=None, rng=None):
    stats = res['stats']
    out = []
    x, known, generic = build(p)
    if p.get('history') and len(x.cores) > 1:
        h = p['history']
        x = x.round(h['eps1'])
        k = h['k'] % len(x.cores)
        c = x.cores[k]
        gh = gen.vgen(h['vseed'])
        new = gen.randn(list(c.shape), p['dt'], gh)
        if h['dup'] and new.shape[-1] > 1:
            new[..., -1] = new[..., 0] * 0.5          # last rank slice dependent on the first: the bond is rank deficient now
        x.set_core(k, new)
        known = None
        core.bump(stats, 'probe.operand_with_history')
    if p.get('global_scale'):
        f_ = 10.0 ** p['global_scale']
        d_ = len(x.cores)
        spread = p['vseed'] % 2 == 0      # the factor sits in one core or is spread over all of them
        x = TT([c * (f_ ** (1.0 / d_)) for c in x.cores] if spread else [c * f_ if k == 0 else c for k, c in enumerate(x.cores)])
    ref = gen.dense(x)
    snap = take_snap(x)
    d = len(x.N)
    fam = '%s|d%d|%s|%s|%s|%s' % (p['cls'], d, 'M' if p['ttm'] else 'T', p['dt'],
                                  'eps0' if p['eps'] == 0 else 'tiny' if p['eps'] < 1e-9 else 'eps',
                                  'rmaxlist' if isinstance(p['rmax'], list) else 'rmax' if p['rmax'] else 'norm')

    def call():
        if p['rmax'] is None:
            return x.round(p['eps'])
        return x.round(p['eps'], p['rmax'])

    def operand_check(desc, tag):
        r = check_unchanged(x, snap)
        if r is not None:
            out.append(core.violation(PROP, 'OPERAND', 'round', r[0], '%s: round changed its operand: %s' % (tag, r[1]), desc))
            return False
        return True

    y0, exc, f0 = svdfault.run_with_plan(call, {})
    core.bump(stats, 'roundings')
    n = f0.n_primary
    res['keys'].append(fam + '|free')
    desc0 = {'case': p, 'plan': None}
    if exc is not None:
        out.append(core.violation(PROP, 'CONTRACT', 'round', 'raised:' + type(exc).__name__, 'fault-free round raised %s: %s' % (type(exc).__name__, str(exc)[:100]), desc0))
        return out, n
    if not operand_check(desc0, 'fault-free'):
        return out, n
    c = contract(p, x, y0, ref, known)
    if c is not None:
        out.append(core.violation(PROP, 'CONTRACT', 'round', c[0], 'fault-free: ' + c[1], desc0))
    elif LAST['ratio'] is not None and LAST['ratio'] > 0.9 and p['eps'] >= 1e-9:
        res['near'].append((round(LAST['ratio'], 4), fam))
        core.bump(stats, 'probe.error_above_0.9_eps')
    if any(r1 < r0 for r0, r1 in zip(gen.ints(x.R), gen.ints(y0.R))):
        core.bump(stats, 'probe.rank_reduced')
    if p.get('history') and c is None:
        # the same cores wrapped in a fresh object must round to the same thing (round is a function of the cores)
        fresh = TT(list(x.cores))          # the very same tensors (same memory layout, hence the same bits), only the object is new
        yr = fresh.round(p['eps']) if p['rmax'] is None else fresh.round(p['eps'], p['rmax'])
        if gen.ints(yr.R) != gen.ints(y0.R) or gen.fro(gen.dense(yr) - gen.dense(y0)) > 1e-12 * max(gen.fro(ref), 1e-300):
            out.append(core.violation(PROP, 'HISTORY', 'round', 'depends_on_history', 'round() of an object that was rounded and then modified through set_core gives ranks %s; the same cores in a fresh object give %s' % (
                gen.ints(y0.R), gen.ints(yr.R)), desc0))
    full0 = gen.dense(y0)
    if plans is None:
        plans = svdfault.enumerate_plans(rng, n) if rng is not None else []
    for plan in plans:
        yf, excf, f = svdfault.run_with_plan(call, plan)
        core.bump(stats, 'roundings')
        svdfault.branch_stats(f, stats)
        if f.fired_primary == 0:
            core.bump(stats, 'probe.svd_seam_unreached_or_plan_out_of_range')
            continue
        core.bump(stats, 'plans.' + plan.get('kind', '?'))
        res['keys'].append(fam + '|' + plan.get('kind', '?'))
        desc = {'case': p, 'plan': plan}
        if not operand_check(desc, 'under plan %s' % plan):
            break
        if plan.get('Q') and f.fired_secondary > 0:
            if excf is None:
                out.append(core.violation(PROP, 'DOUBLE-FAULT', 'round', 'returned', 'both SVD backends failed and round still returned an object', desc))
            continue
        if excf is not None:
            out.append(core.violation(PROP, 'FAULT-RECOVERY', 'round', 'raised:' + type(excf).__name__, 'primary SVD failed at call(s) %s and the fallback path raised %s: %s' % (
                'all' if plan.get('all') else plan['P'], type(excf).__name__, str(excf)[:100]), desc))
            continue
        cf = contract(p, x, yf, ref, known)
        if cf is not None:
            if c is None or cf[0] != c[0]:
                out.append(core.violation(PROP, 'FAULT-CONTRACT', 'round', cf[0], 'under plan %s: %s' % (plan, cf[1]), desc))
            continue
        if generic and c is None and p['cls'] not in ('scaled', 'gauge', 'zero'):
            if gen.ints(yf.R) != gen.ints(y0.R):
                core.bump(stats, 'probe.agree_skipped_rank_decision_differs')     # see c01: a threshold decision flipped
                continue
            verdict, dd, tol = svdfault.agree_conditioned(gen.dense(yf), full0, gen.fro(ref), p['dt'], ref, gen.ints(x.N), gen.ints(x.M) if x.is_ttm else None,
                                                          gen.ints(y0.R), gen.fro(full0 - ref))
            if verdict == 'ill-conditioned':
                core.bump(stats, 'probe.agree_skipped_ill_conditioned_truncation')
            if verdict == 'differs':
                out.append(core.violation(PROP, 'FAULT-AGREE', 'round', 'value', 'result under plan %s differs from the fault-free result by %.3g (tol %.3g)' % (plan, dd, tol), desc))
    return out, n


def run_one(rng, tier, res, opts):
    p = gen_case(rng)
    log = core.EventLog()
    viol, n = exec_case(p, res, rng=rng)
    for v in viol:
        res['viol'].append(v)
        log.add('VIOL', v['oracle'], v['field'])
    core.bump(res['stats'], 'runs')
    log.add('case', core.digest_of(p), n, sorted(res['stats'].items()))
    res['digest'] = log.digest()
    if res['i'] < 3:
        res['sample'] = {'run': res['i'], 'case': p, 'primary_svd_calls': n}


def replay(desc, opts):
    res = core.new_result(-1)
    plans = [desc['plan']] if desc.get('plan') else []
    viol, n = exec_case(desc['case'], res, plans=plans)
    return viol


def shrink_candidates(desc):
    p = desc['case']
    plan = desc.get('plan')
    if plan and len(plan.get('P', [])) > 1:
        for k in range(len(plan['P'])):
            yield {'case': p, 'plan': dict(plan, P=plan['P'][:k] + plan['P'][k + 1:])}
    if p['cls'] != 'saturate' and len(p['N']) > 2 and not plan:
        q = dict(p, N=p['N'][:-1], R=p['R'][:-2] + [1])
        if p.get('M'):
            q['M'] = p['M'][:-1]
        if isinstance(p['rmax'], list):
            q['rmax'] = p['rmax'][:-2] + [1]
        yield {'case': q, 'plan': plan}
    if p['dt'] != 'f64':
        yield {'case': dict(p, dt='f64'), 'plan': plan}
    if p['rmax'] is not None:
        yield {'case': dict(p, rmax=None), 'plan': plan}
    if p['ttm']:
        yield {'case': dict(p, ttm=False), 'plan': plan}
    if p.get('history'):
        yield {'case': dict(p, history=None), 'plan': plan}
