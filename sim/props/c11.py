"""
C11 - DMRG and AMEn products approximate the exact product within eps, for
every internal random stream (seed), user supplied initial guesses, and under
SVD-failure schedules (exploration).
"""
import math

import numpy as np
import torch

import torchtt
from torchtt import TT

from sim import core, gen, seams, svdfault
from sim.history import take_snap, check_unchanged, check_wf

PROP = 'C11'
LEVEL = 'exploration'
EVAL_KEY = 'runs'
C = 5.0      # worst observed err/eps on the repaired tree: 0.81 over 200 000 runs incl. graded spectra
TIERS = {
    'quick': {'runs': 16000, 'opts': {}, 'chunk': 50},
    'thorough': {'runs': 300000, 'opts': {}, 'chunk': 100, 'time_cap': 1500},
}
RULE = ('per run: routine in {fast_matvec, dmrg_hadamard, amen_mv, amen_mm}; order 1..6; row/column/inner mode sizes 1..6 drawn '
        'independently; operand ranks 1..4; N(0,1), geometric-decay or cancelling 10^+-6 core scales; float64 (+complex128 for DMRG); '
        'eps=10^-k, k in 1..12; initial guess in {none, random rank 1, random rank 3, exact answer, perturbed answer}; the global '
        'torch PRNG (initial guess, rank kick, enrichment) is seeded per run from the run PRNG; on 25% of runs primary SVD calls fail (late calls too) '
        'at seeded indices; 10-12% of runs are preceded in the same process by the same routine on other data of the same structure (history independence); distinct by (routine, order, dtype, value class, eps decade, guess kind, fault kind, singleton/odd-size flags)')
ASSUMPTIONS = ['single-threaded BLAS, so a run is a pure function of (seed, run index, working tree)',
               'oracle constant C=5: error <= 5*eps*||exact|| (calibrated: worst observed ratio err/eps 0.81 over 200 000 runs)',
               'exact product computed by the checker\'s own dense contraction in the operand dtype']
REAL = ['torchtt fast_matvec/dmrg_matvec_python, dmrg_hadamard, amen_mv, amen_mm (working tree)', 'torch', 'numpy fallback SVD']
STUB = ['failure of torch.linalg.svd at planned call indices']


def cap_sizes(lists, cap, rng):
    """Shrink the largest entries until prod over all lists of prod(list) <= cap."""
    def total():
        t = 1
        for l in lists:
            for v in l:
                t *= v
        return t
    while total() > cap:
        l = max(lists, key=lambda q: max(q))
        k = l.index(max(l))
        l[k] = max(1, l[k] - 1)


def gen_case(rng):
    routine = rng.choices(['fast_matvec', 'dmrg_hadamard', 'amen_mv', 'amen_mm'], [3, 3, 3, 2])[0]
    d = rng.choice([1, 2, 2, 3, 3, 4, 4, 5, 6])
    dt = 'f64'
    if routine in ('fast_matvec', 'dmrg_hadamard') and rng.random() < 0.3:
        dt = 'c128'
    sz = lambda: [rng.randint(1, 6) for _ in range(d)]
    p = {'routine': routine, 'dt': dt, 'vseed': rng.getrandbits(31), 'tseed': rng.getrandbits(31)}
    p['N'] = sz()
    p['M'] = sz()
    p['K'] = sz()
    if routine == 'fast_matvec' or routine == 'amen_mv':
        cap_sizes([p['M'], p['N']], 150000, rng)
    elif routine == 'amen_mm':
        cap_sizes([p['M'], p['K']], 60000, rng)
        cap_sizes([p['K'], p['N']], 60000, rng)
        cap_sizes([p['M'], p['N']], 60000, rng)
    rk = lambda rmax=4: [1] + [rng.randint(1, rmax) for _ in range(d - 1)] + [1]
    p['RA'] = rk(3 if routine == 'amen_mm' else 4)
    p['RB'] = rk(3 if routine == 'amen_mm' else 4)
    p['vals'] = rng.choice(['normal', 'normal', 'decay', 'scaled', 'graded', 'graded', 'tiny', 'tiny', 'huge'])
    # 'tiny'/'huge': the whole operand is scaled by 10^-+s (the contract is relative, so it must be scale invariant);
    # half of these also have a graded spectrum
    p['scale_exp'] = rng.randint(4, 15)
    p['scale_graded'] = rng.random() < 0.5
    p['graded'] = {'J': rng.randint(2, 5), 'step': rng.choice([0.5, 1.0, 1.5, 2.0])}
    p['eps'] = 10.0 ** (-rng.randint(1, 12))
    p['guess'] = rng.choice(['none', 'none', 'rank1', 'rank3', 'exact', 'perturbed', 'zeros', 'scaled_rank1', 'scaled_rank2'])
    p['nswp'] = None
    # 'exact sweep budget': first find out how many sweeps the routine uses, then allow exactly that many, so that the
    # converged result is produced by the final-permitted-sweep branch (no rank kick) that default runs never execute
    p['exact_nswp'] = routine in ('fast_matvec', 'dmrg_hadamard') and rng.random() < 0.2
    r = rng.random()
    if r < 0.2:
        pts = sorted(set(rng.randint(0, 40) for _ in range(rng.randint(1, 4))))
        p['plan'] = {'P': pts, 'Q': [], 'all': False, 'kind': 'subset'}
        if rng.random() < 0.5:
            p['plan'] = {'P': [], 'frac': sorted(rng.choice([0.0, 0.05, 0.3, 0.5, 0.8, 0.95, 0.999]) for _ in range(rng.randint(1, 3))), 'Q': [], 'all': False, 'kind': 'fraction'}
    elif r < 0.25:
        p['plan'] = {'P': [], 'Q': [], 'all': True, 'kind': 'all'}
    else:
        p['plan'] = None
    # history dimension: the checked call is preceded, in the same process, by the same routine on other data of the same
    # structure (values from the seed below)
    p['prelude'] = rng.getrandbits(31) if rng.random() < 0.1 else None
    return p


def rng_even(p):
    return p['vseed'] % 2 == 0


def shape_vals(cores, kind, g, p=None):
    d = len(cores)
    if kind in ('tiny', 'huge') and p is not None:
        f_ = 10.0 ** (-p['scale_exp'] if kind == 'tiny' else p['scale_exp'])
        return [c * f_ if k == 0 else c for k, c in enumerate(cores)]
    if kind == 'decay':
        out = []
        for c in cores:
            r = c.shape[-1]
            w = torch.tensor([0.5 ** i for i in range(r)], dtype=torch.float64).to(c.dtype)
            out.append(c * w)
        return out
    if kind == 'scaled' and d > 1:
        out = []
        for k, c in enumerate(cores):
            s = 1e6 if k % 2 == 0 else 1e-6
            out.append(c * s)
        if d % 2 == 1:
            out[-1] = out[-1] * 1e-6
        return out
    return cores


def build(p):
    g = gen.vgen(p['vseed'])
    dt = p['dt']
    routine = p['routine']
    if p['vals'] in ('tiny', 'huge') and p.get('scale_graded') or p['vals'] == 'graded':
        J, st = p['graded']['J'], p['graded']['step']
        if routine in ('fast_matvec', 'amen_mv'):
            A = TT(gen.graded_cores(p['N'], J, st, dt, g, p['M']))
            B = TT(gen.graded_cores(p['N'], J, st, dt, g))
        elif routine == 'dmrg_hadamard':
            A = TT(gen.graded_cores(p['N'], J, st, dt, g))
            B = TT(gen.graded_cores(p['N'], J, st, dt, g))
        else:
            A = TT(gen.graded_cores(p['K'], J, st, dt, g, p['M']))
            B = TT(gen.graded_cores(p['N'], J, st, dt, g, p['K']))
    isg = p['vals'] == 'graded' or (p['vals'] in ('tiny', 'huge') and p.get('scale_graded'))
    if isg and p['vals'] != 'graded':
        f_ = 10.0 ** (-p['scale_exp'] if p['vals'] == 'tiny' else p['scale_exp'])
        A = TT([c * f_ if k == 0 else c for k, c in enumerate(A.cores)])
        if routine == 'dmrg_hadamard' or rng_even(p):
            B = TT([c * f_ if k == 0 else c for k, c in enumerate(B.cores)])
    if isg and routine in ('fast_matvec', 'amen_mv'):
        Ad, Bd = gen.dense(A), gen.dense(B)
        d = len(p['N'])
        exact = torch.tensordot(Ad, Bd, dims=(list(range(d, 2 * d)), list(range(d))))
        outN, outM = list(p['M']), None
    elif isg and routine == 'dmrg_hadamard':
        exact = gen.dense(A) * gen.dense(B)
        outN, outM = list(p['N']), None
    elif isg:
        d = len(p['N'])
        exact = torch.tensordot(gen.dense(A), gen.dense(B), dims=(list(range(d, 2 * d)), list(range(d))))
        outN, outM = list(p['N']), list(p['M'])
    elif routine in ('fast_matvec', 'amen_mv'):
        A = TT(shape_vals(gen.rand_cores(p['N'], p['RA'], dt, g, p['M']), p['vals'], g, p))
        B = TT(shape_vals(gen.rand_cores(p['N'], p['RB'], dt, g), p['vals'], g, p))
        Ad, Bd = gen.dense(A), gen.dense(B)
        d = len(p['N'])
        exact = torch.tensordot(Ad, Bd, dims=(list(range(d, 2 * d)), list(range(d))))
        outN, outM = list(p['M']), None
    elif routine == 'dmrg_hadamard':
        A = TT(shape_vals(gen.rand_cores(p['N'], p['RA'], dt, g), p['vals'], g, p))
        B = TT(shape_vals(gen.rand_cores(p['N'], p['RB'], dt, g), p['vals'], g, p))
        exact = gen.dense(A) * gen.dense(B)
        outN, outM = list(p['N']), None
    else:
        A = TT(shape_vals(gen.rand_cores(p['K'], p['RA'], dt, g, p['M']), p['vals'], g, p))
        B = TT(shape_vals(gen.rand_cores(p['N'], p['RB'], dt, g, p['K']), p['vals'], g, p))
        d = len(p['N'])
        exact = torch.tensordot(gen.dense(A), gen.dense(B), dims=(list(range(d, 2 * d)), list(range(d))))
        outN, outM = list(p['N']), list(p['M'])
    # initial guess
    guess = None
    gk = p['guess']
    d = len(outN)
    if gk in ('rank1', 'rank3'):
        r = 1 if gk == 'rank1' else 3
        guess = TT(gen.rand_cores(outN, [1] + [r] * (d - 1) + [1], dt, g, outM))
    elif gk == 'zeros':
        guess = torchtt.zeros([(m, n) for m, n in zip(outM, outN)] if outM is not None else list(outN), dtype=gen.DTYPES[dt])
    elif gk in ('scaled_rank1', 'scaled_rank2'):
        # a low-rank guess of the same magnitude as the answer (whatever that magnitude is)
        r = 1 if gk == 'scaled_rank1' else 2
        guess = TT(gen.rand_cores(outN, [1] + [r] * (d - 1) + [1], dt, g, outM))
        sc = gen.fro(exact) / max(gen.fro(gen.dense(guess)), 1e-300)
        guess = TT([c * sc if k == 0 else c for k, c in enumerate(guess.cores)])
    elif gk in ('exact', 'perturbed'):
        if outM is None:
            guess = TT(exact.clone(), eps=1e-13) if d > 1 else TT(exact.clone())
        else:
            guess = TT(exact.clone(), [(m, n) for m, n in zip(outM, outN)], eps=1e-13)
        if gk == 'perturbed':
            pert = TT(gen.rand_cores(outN, [1] + [1] * (d - 1) + [1], dt, g, outM))
            nrm = gen.fro(exact)
            guess = guess + pert * (0.01 * nrm / max(gen.fro(gen.dense(pert)), 1e-300))
    return A, B, guess, exact, outN, outM


def sweeps_used(p, A, B, guess, use_cpp=False):
    """Runs the routine verbosely with the default sweep limit and counts the sweeps it reports."""
    import re
    cap = seams.CaptureFd1()
    with cap:
        if p['routine'] == 'fast_matvec':
            A.fast_matvec(B, eps=p['eps'], initial=guess, use_cpp=use_cpp, verb=True)
        else:
            torchtt.dmrg_hadamard(A, B, z0=guess, eps=p['eps'], use_cpp=False, verb=True)
    m = re.findall(r'Finished after (\d+) sweeps', cap.text)
    if m:
        return int(m[-1])
    return len(re.findall(r'^sweep ', cap.text, flags=re.M))


def call_routine(p, A, B, guess):
    r = p['routine']
    kw = {}
    if p.get('nswp'):
        kw['nswp'] = p['nswp']
    if r == 'fast_matvec':
        return A.fast_matvec(B, eps=p['eps'], initial=guess, use_cpp=False, **kw)
    if r == 'dmrg_hadamard':
        return torchtt.dmrg_hadamard(A, B, z0=guess, eps=p['eps'], use_cpp=False, **kw)
    if r == 'amen_mv':
        return torchtt.amen_mv(A, B, x0=guess, eps=p['eps'], use_cpp=False, **kw)
    return torchtt.amen_mm(A, B, X0=guess, eps=p['eps'], **kw)


def family(p):
    flags = ''
    if 1 in p['N'] or 1 in p['M']:
        flags += 's'
    if p.get('exact_nswp'):
        flags += 'x'
    return '%s|d%d|%s|%s|e%d|%s|%s|%s' % (p['routine'], len(p['N']), p['dt'], p['vals'], round(-math.log10(p['eps'])), p['guess'],
                                         p['plan']['kind'] if p['plan'] else 'nofault', flags)


def exec_case(p, res):
    stats = res['stats']
    out = []
    A, B, guess, exact, outN, outM = build(p)
    snaps = [(A, take_snap(A), 'first operand'), (B, take_snap(B), 'second operand')]
    if guess is not None:
        snaps.append((guess, take_snap(guess), 'initial guess'))
    fam = family(p)
    res['keys'].append(fam)
    desc = {'case': p}
    if p.get('exact_nswp') and len(p['N']) > 1:
        seams.seed_global(p['tseed'])
        ns, exc0, f0 = svdfault.run_with_plan(lambda: sweeps_used(p, A, B, guess), p['plan'] or {})
        if exc0 is None and ns and ns >= 1:
            p = dict(p, nswp=int(ns))
            core.bump(stats, 'probe.exact_sweep_budget')
    if p['plan'] and p['plan'].get('frac') is not None:
        def _count():
            seams.seed_global(p['tseed'])
            return call_routine(p, A, B, guess)
        p = dict(p, plan=svdfault.resolve_fractions(p['plan'], _count))
    if p.get('prelude') is not None:
        # history dimension: the same routine on other operands of the same structure earlier in this process (its
        # outcome is another run's business); the checked call must not depend on it
        pp = dict(p, vseed=p['prelude'], plan=None, prelude=None)
        try:
            A2, B2, g2 = build(pp)[:3]
            seams.seed_global(p['tseed'] ^ 0x5a5a5a)
            call_routine(pp, A2, B2, g2)
        except Exception:
            core.bump(stats, 'history.prelude_raised')
        core.bump(stats, 'probe.call_with_history')
    seams.seed_global(p['tseed'])
    y, exc, f = svdfault.run_with_plan(lambda: call_routine(p, A, B, guess), p['plan'] or {})
    core.bump(stats, 'calls.' + p['routine'])
    svdfault.branch_stats(f, stats)
    if p['plan'] and f.fired_primary == 0:
        core.bump(stats, 'probe.fault_plan_not_reached')
    if len(p['N']) == 1:
        core.bump(stats, 'probe.order1')
    if guess is not None:
        core.bump(stats, 'probe.user_guess')
    for obj, snap, what in snaps:
        r = check_unchanged(obj, snap)
        if r is not None:
            out.append(core.violation(PROP, 'OPERAND', p['routine'], r[0], '%s changed: %s' % (what, r[1]), desc))
    if exc is not None:
        out.append(core.violation(PROP, 'RAISED', p['routine'], type(exc).__name__, '%s raised %s: %s' % (p['routine'], type(exc).__name__, str(exc)[:120]), desc))
        return out, None
    if not isinstance(y, TT):
        out.append(core.violation(PROP, 'RESULT', p['routine'], 'type', 'returned %s' % type(y).__name__, desc))
        return out, None
    r = check_wf(y, do_full=True)
    if r is not None:
        out.append(core.violation(PROP, 'RESULT', p['routine'], 'wf-' + r[0], r[1], desc))
        return out, None
    if gen.ints(y.N) != outN or bool(y.is_ttm) != (outM is not None) or (outM is not None and gen.ints(y.M) != outM):
        out.append(core.violation(PROP, 'RESULT', p['routine'], 'shape', 'result N=%s M=%s expected N=%s M=%s' % (y.N, y.M if y.is_ttm else None, outN, outM), desc))
        return out, None
    if guess is not None and y.cores is guess.cores:
        out.append(core.violation(PROP, 'OPERAND', p['routine'], 'alias', 'result shares its cores list with the initial guess', desc))
    full = gen.dense(y)
    ne = gen.fro(exact)
    err = gen.fro(full - exact.reshape(full.shape))
    u = gen.UNIT_ROUNDOFF[p['dt']]
    rep = 1.0      # magnitude of the operands' representation: roundoff is relative to prod ||cores||, not to ||exact||
    for c_ in list(A.cores) + list(B.cores):
        rep *= gen.fro(c_)
    bound = C * p['eps'] * ne + 1000 * u * max(ne, rep)
    ratio = err / (p['eps'] * ne) if ne > 0 else (0.0 if err == 0 else float('inf'))
    if not err <= bound:
        out.append(core.violation(PROP, 'ACCURACY', p['routine'], 'error', 'relative error %.3g = %.3g * eps (eps=%.0e), ranks %s' % (err / max(ne, 1e-300), ratio, p['eps'], gen.ints(y.R)), desc))
    elif ratio > 0.5 and p['eps'] >= 1e-11:
        res['near'].append((round(ratio, 3), fam))
        if ratio > 1.0:
            core.bump(stats, 'probe.ratio_above_1')
    return out, ratio


def run_one(rng, tier, res, opts):
    p = gen_case(rng)
    log = core.EventLog()
    viol, ratio = exec_case(p, res)
    for v in viol:
        res['viol'].append(v)
        log.add('VIOL', v['oracle'], v['field'])
    core.bump(res['stats'], 'runs')
    log.add('case', core.digest_of(p), ratio, sorted(res['stats'].items()))
    res['digest'] = log.digest()
    if res['i'] < 3:
        res['sample'] = {'run': res['i'], 'case': p, 'err_over_eps': ratio}


def replay(desc, opts):
    res = core.new_result(-1)
    viol, ratio = exec_case(desc['case'], res)
    return viol


def shrink_candidates(desc):
    p = desc['case']
    if p.get('plan'):
        yield {'case': dict(p, plan=None)}
    if p.get('prelude') is not None:
        yield {'case': dict(p, prelude=None)}
        if len(p['plan'].get('P', [])) > 1:
            for k in range(len(p['plan']['P'])):
                yield {'case': dict(p, plan=dict(p['plan'], P=p['plan']['P'][:k] + p['plan']['P'][k + 1:]))}
    if p['guess'] != 'none':
        yield {'case': dict(p, guess='none')}
    if p['vals'] != 'normal':
        yield {'case': dict(p, vals='normal')}
    if p['dt'] != 'f64':
        yield {'case': dict(p, dt='f64')}
    d = len(p['N'])
    if d > 1:
        for k in range(d):
            q = dict(p)
            for nm in ('N', 'M', 'K'):
                q[nm] = p[nm][:k] + p[nm][k + 1:]
            for nm in ('RA', 'RB'):
                q[nm] = p[nm][:k + 1] + p[nm][k + 2:] if k < d - 1 else p[nm][:-2] + [1]
            yield {'case': q}
    if any(r > 1 for r in p['RA'] + p['RB']):
        yield {'case': dict(p, RA=[1] * (d + 1), RB=[1] * (d + 1))}
    for nm in ('N', 'M', 'K'):
        if any(n > 2 for n in p[nm]):
            yield {'case': dict(p, **{nm: [min(n, 2) for n in p[nm]]})}
