"""
C10 - reshape / permute / to_qtt / qtt_to_tens preserve the tensor up to a
small multiple of eps, under every schedule of primary-SVD failures
(fault_enumeration, narrow).
"""
import math
import itertools

import numpy as np
import torch

import torchtt
from torchtt import TT

from sim import core, gen, seams, svdfault
from sim.history import take_snap, check_unchanged, check_wf

PROP = 'C10'
LEVEL = 'fault_enumeration'
EVAL_KEY = 'calls'
C = 10.0
# per-routine constant of the eps part of the bound, from a 60 000-run calibration with graded spectra on the repaired tree:
# worst observed err/(eps*||x||) was 1.05 for reshape, < 1 for permute and 2.7 for to_qtt (which truncates every core on its own)
CR = {'reshape': 5.0, 'reshape_m': 5.0, 'permute': 5.0, 'permute_m': 5.0, 'to_qtt': 10.0, 'to_qtt_m': 5.0, 'qtt_roundtrip': 10.0}
TIERS = {
    'quick': {'runs': 20000, 'opts': {}, 'chunk': 100},
    'thorough': {'runs': 600000, 'opts': {}, 'chunk': 200, 'time_cap': 1200},
}
RULE = ('seeded TT tensors/operators of order 1..6; reshape to an ordered factorisation/merge of the element count with 0-2 singleton '
        'modes inserted (front/middle/end), permutations (all for d<=4, sampled above), power-of-two QTT conversion and folding back; '
        '20% of the non-graded operands carry a history (an earlier call of the family on the same object, then set_core with a core of the same shape); each executed fault-free and under every single primary-SVD failure, all-fail, two subsets, one double fault; evaluations = '
        'calls executed; distinct by (routine, kind, order in, order out, dtype, eps class, trailing-singleton flags, plan kind)')
ASSUMPTIONS = ['inputs are sampled; the exhaustively enumerated dimension is the set of single primary-SVD failures of each call',
               'constant of the bound: C*eps*||x|| + 2000*u*prod||G_k||*d with C=5 (reshape, permute) or 10 (to_qtt), calibrated on graded spectra',
               'numpy.linalg.svd is a correct SVD']
REAL = ['torchtt.reshape, torchtt.permute, TT.to_qtt, TT.qtt_to_tens, round (working tree)', 'torch.linalg.svd/qr', 'numpy.linalg.svd']
STUB = ['the failure of torch.linalg.svd']


def factorize(n, rng, maxlen):
    out = []
    rem = n
    while rem > 1 and len(out) < maxlen - 1:
        divs = [q for q in range(2, rem + 1) if rem % q == 0]
        q = rng.choice(divs)
        out.append(q)
        rem //= q
    if rem > 1 or not out:
        out.append(rem)
    return out


def insert_ones(lst, rng, k):
    lst = list(lst)
    for _ in range(k):
        pos = rng.choice([0, len(lst), rng.randint(0, len(lst))])
        lst.insert(pos, 1)
    return lst


def gen_case(rng):
    routine = rng.choices(['reshape', 'reshape_m', 'permute', 'permute_m', 'to_qtt', 'to_qtt_m', 'qtt_roundtrip'], [5, 3, 3, 2, 2, 1, 2])[0]
    dt = rng.choice(['f64', 'f64', 'f64', 'c128'])
    p = {'routine': routine, 'dt': dt, 'vseed': rng.getrandbits(31)}
    r = rng.random()
    p['eps'] = None if r < 0.25 else 10 ** rng.uniform(-14, -1)
    if routine in ('reshape', 'reshape_m'):
        d = rng.choice([1, 2, 2, 3, 3, 4, 5, 6])
        nmax = {1: 24, 2: 8, 3: 6, 4: 4, 5: 3, 6: 3}[d]
        N = [rng.randint(1, nmax) if rng.random() < 0.8 else 1 for _ in range(d)]
        p['N'] = N
        p['R'] = [1] + [rng.randint(1, 4) for _ in range(d - 1)] + [1]
        tot = int(np.prod(N))
        dout = rng.randint(1, 6)
        shN = factorize(tot, rng, dout)
        if routine == 'reshape_m':
            mmax = {1: 8, 2: 4, 3: 3, 4: 3, 5: 2, 6: 2}[d]
            p['N'] = N = [min(n, mmax) for n in N]
            tot = int(np.prod(N))
            shN = factorize(tot, rng, dout)
            if rng.random() < 0.5:
                M = list(N)
                shM = list(shN)
            else:
                M = [rng.randint(1, mmax) if rng.random() < 0.8 else 1 for _ in range(d)]
                shM = factorize(int(np.prod(M)), rng, dout)
            p['M'] = M
            L = max(len(shM), len(shN))
            shM = shM + [1] * (L - len(shM))
            shN = shN + [1] * (L - len(shN))
            k = rng.choice([0, 0, 1, 2])
            for _ in range(k):
                pos = rng.choice([0, len(shN), rng.randint(0, len(shN))])
                shM.insert(pos, 1)
                shN.insert(pos, 1)
            p['shape'] = [[m, n] for m, n in zip(shM, shN)]
        else:
            p['shape'] = insert_ones(shN, rng, rng.choice([0, 0, 1, 2]))
    elif routine in ('permute', 'permute_m'):
        d = rng.choice([2, 2, 3, 3, 4, 4, 5, 6])
        nmax = {2: 8, 3: 6, 4: 5, 5: 4, 6: 3}[d]
        if routine == 'permute_m':
            nmax = min(nmax, 3)
            d = min(d, 5)
        p['N'] = [rng.randint(1, nmax) if rng.random() < 0.85 else 1 for _ in range(d)]
        if routine == 'permute_m':
            p['M'] = [rng.randint(1, nmax) for _ in range(d)]
        p['R'] = [1] + [rng.randint(1, 4) for _ in range(d - 1)] + [1]
        dims = list(range(d))
        rng.shuffle(dims)
        p['dims'] = dims
        if p['eps'] is not None and p['eps'] > 1e-2:
            p['eps'] = 1e-2
    elif routine in ('to_qtt', 'qtt_roundtrip'):
        d = rng.choice([1, 2, 2, 3, 3, 4])
        p['N'] = [rng.choice([1, 2, 4, 4, 8, 8, 16]) for _ in range(d)]
        while int(np.prod(p['N'])) > 4096:
            p['N'][rng.randrange(d)] = 2
        p['R'] = [1] + [rng.randint(1, 4) for _ in range(d - 1)] + [1]
    else:  # to_qtt_m
        d = rng.choice([1, 2, 2, 3])
        p['N'] = [rng.choice([2, 2, 4, 4, 8]) if rng.random() < 0.9 else 1 for _ in range(d)]
        while int(np.prod(p['N'])) > 64:
            p['N'][rng.randrange(d)] = 2
        if all(n == 1 for n in p['N']):
            p['N'][0] = 2        # an all-singleton operator has no QTT form (zero modes): outside the domain
        p['M'] = list(p['N'])
        p['R'] = [1] + [rng.randint(1, 3) for _ in range(d - 1)] + [1]
    # graded spectrum: singular values spread over many decades so that the eps actually used by the routine matters
    p['graded'] = {'J': rng.randint(3, 8), 'step': rng.choice([0.5, 1.0, 1.5])} if rng.random() < 0.4 else None
    # badly balanced cores: G_k <- G_k T, G_{k+1} <- T^-1 G_{k+1} on one bond, cond(T) up to 1e8 (value unchanged)
    p['gauge'] = rng.choice([1e2, 1e4, 1e6, 1e8]) if (p['graded'] is None and rng.random() < 0.3) else None
    # 'diag': T is diagonal (pure rescaling of the rank index).  QR-based orthogonalisation is invariant under such
    # scalings, so the result must be accurate to roundoff relative to ||x||, not merely relative to prod ||G_k||
    p['gauge_kind'] = rng.choice(['rot', 'diag'])
    # exact zeros: zeros(N) + x puts an all-zero block first in every core (zero pivots in the orthogonalisation);
    # 'dead' zeroes one rank slice of one core
    p['zeros'] = rng.choice([None] * 6 + ['front', 'back', 'dead']) if (p['graded'] is None and p['gauge'] is None) else None
    # history dimension: the operand has already been through the same routine (or another one of the family) and one of
    # its cores was then replaced through set_core by a core of the same shape; the routine must follow the current cores
    p['history'] = None
    if p['graded'] is None and p['gauge'] is None and rng.random() < 0.2:
        p['history'] = {'prior': rng.choice(['same', 'same', 'reshape_flat', 'to_qtt', 'permute_rev']), 'k': rng.randint(0, 5), 'vseed': rng.getrandbits(31),
                        'how': rng.choice(['random', 'negate', 'scale'])}
    return p


def qtt_shape(N):
    out = []
    for n in N:
        k = int(round(math.log2(n))) if n >= 1 else 0
        if n >= 4:
            out += [2] * k
        else:
            out.append(n)
    return out


def build(p):
    g = gen.vgen(p['vseed'])
    M = p.get('M')
    if p.get('graded'):
        return TT(gen.graded_cores(p['N'], p['graded']['J'], p['graded']['step'], p['dt'], g, M))
    cores = gen.rand_cores(p['N'], p['R'], p['dt'], g, M)
    d = len(cores)
    if p.get('gauge') and d > 1:
        from sim.props.c01 import orth
        k = p['vseed'] % (d - 1)
        r = cores[k].shape[-1]
        if r > 1:
            tdt = gen.DTYPES[p['dt']]
            u_, v_ = orth(r, p['dt'], g), orth(r, p['dt'], g)
            sv = torch.logspace(0, math.log10(p['gauge']), r, dtype=torch.float64).to(tdt)
            if p.get('gauge_kind') == 'diag':
                hm = math.sqrt(p['gauge'])
                T = torch.diag(sv / hm)
                Ti = torch.diag(hm / sv)
            else:
                T = u_ @ torch.diag(sv) @ v_
                Ti = v_.conj().t() @ torch.diag(1.0 / sv) @ u_.conj().t()
            cores[k] = torch.tensordot(cores[k], T, dims=([cores[k].dim() - 1], [0]))
            cores[k + 1] = torch.tensordot(Ti, cores[k + 1], dims=([1], [0]))
    x = TT(cores)
    z = p.get('zeros')
    if z and d >= 1:
        if p.get('M'):
            zz = torchtt.zeros([(m, n) for m, n in zip(p['M'], p['N'])], dtype=gen.DTYPES[p['dt']])
        else:
            zz = torchtt.zeros(list(p['N']), dtype=gen.DTYPES[p['dt']])
        if z == 'front':
            x = zz + x
        elif z == 'back':
            x = x + zz
        elif d > 1:
            cs = [c.clone() for c in x.cores]
            k = p['vseed'] % (d - 1)
            cs[k][..., 0] = 0
            x = TT(cs)
    return x


def expected(p, x):
    """(callable, target N, target M or None, reference dense in TT layout)."""
    routine = p['routine']
    full = gen.dense(x)
    eps = p['eps']
    if routine == 'reshape':
        sh = list(p['shape'])
        call = (lambda: torchtt.reshape(x, sh)) if eps is None else (lambda: torchtt.reshape(x, sh, eps))
        return call, sh, None, full.reshape(sh)
    if routine == 'reshape_m':
        sh = [tuple(s) for s in p['shape']]
        Mo = [s[0] for s in sh]
        No = [s[1] for s in sh]
        call = (lambda: torchtt.reshape(x, sh)) if eps is None else (lambda: torchtt.reshape(x, sh, eps))
        return call, No, Mo, full.reshape(Mo + No)
    if routine == 'permute':
        dims = p['dims']
        call = (lambda: torchtt.permute(x, dims)) if eps is None else (lambda: torchtt.permute(x, dims, eps))
        return call, [p['N'][k] for k in dims], None, full.permute(dims)
    if routine == 'permute_m':
        dims = p['dims']
        d = len(dims)
        call = (lambda: torchtt.permute(x, dims)) if eps is None else (lambda: torchtt.permute(x, dims, eps))
        return call, [p['N'][k] for k in dims], [p['M'][k] for k in dims], full.permute(list(dims) + [d + k for k in dims])
    if routine == 'to_qtt':
        No = qtt_shape(p['N'])
        call = (lambda: x.to_qtt()) if eps is None else (lambda: x.to_qtt(eps))
        return call, No, None, full.reshape(No)
    if routine == 'qtt_roundtrip':
        No = list(p['N'])

        def call():
            q = x.to_qtt() if eps is None else x.to_qtt(eps)
            return q.qtt_to_tens(No)
        return call, No, None, full
    if routine == 'to_qtt_m':
        No = []
        for n in p['N']:
            No += [2] * int(round(math.log2(n)))
        call = (lambda: x.to_qtt()) if eps is None else (lambda: x.to_qtt(eps))
        return call, No, list(No), full.reshape(No + No)
    raise ValueError(routine)


def default_eps(routine):
    return {'reshape': 1e-16, 'reshape_m': 1e-16, 'permute': 1e-12, 'permute_m': 1e-12}.get(routine, 1e-12)


def contract(p, x, y, No, Mo, ref):
    if not isinstance(y, TT):
        return 'type', '%s returned %s' % (p['routine'], type(y).__name__)
    r = check_wf(y, do_full=True)
    if r is not None:
        return 'wf-' + r[0], r[1]
    if gen.ints(y.N) != list(No) or bool(y.is_ttm) != (Mo is not None) or (Mo is not None and gen.ints(y.M) != list(Mo)):
        return 'shape', 'result N=%s M=%s, requested N=%s M=%s' % (y.N, y.M if y.is_ttm else None, No, Mo)
    if y.cores[0].dtype != x.cores[0].dtype:
        return 'dtype', 'dtype changed to %s' % y.cores[0].dtype
    full = gen.dense(y)
    nx = gen.fro(ref)
    err = gen.fro(full - ref)
    e = p['eps'] if p['eps'] is not None else default_eps(p['routine'])
    u = gen.UNIT_ROUNDOFF[p['dt']]
    d = max(len(x.N), len(No))
    rep = 1.0      # magnitude of the representation (see c02): roundoff is relative to prod ||G_k||, not to ||x||
    for c_ in x.cores:
        rep *= gen.fro(c_)
    if p.get('gauge') and p.get('gauge_kind') == 'diag':
        rep = nx       # diagonal rescaling of a rank index: roundoff must stay relative to ||x||
    bound = CR[p['routine']] * e * nx + 2000 * u * max(nx, rep) * d
    LAST['ratio'] = err / max(bound, 1e-300)
    LAST['eps_ratio'] = err / max(e * nx, 1e-300) if e >= 1e-11 else None
    LAST['u_ratio'] = err / max(u * nx * d, 1e-300)
    if not err <= bound:
        # diagnose sign / phase loss
        ip = torch.sum(torch.conj(ref) * full)
        ph = ip / abs(ip) if abs(ip) > 0 else 0
        return 'value', 'error %.4g > %.4g (eps=%.3g, ||x||=%.4g); phase of <ref,y> = %s' % (err, bound, e, nx, complex(ph) if ph != 0 else 0)
    return None


LAST = {'ratio': None, 'eps_ratio': None}


def apply_history(p, x, stats):
    """Give the operand a past: an earlier call of the family on the same object, then a documented in-place change of
    one core (set_core with a core of the same shape).  Whatever the earlier call raised or returned is of no interest
    here (it is another run's checked call); only x's current cores count afterwards."""
    h = p['history']
    try:
        if h['prior'] == 'same':
            expected(p, x)[0]()
        elif h['prior'] == 'reshape_flat':
            if x.is_ttm:
                torchtt.reshape(x, [(int(np.prod(gen.ints(x.M))), int(np.prod(gen.ints(x.N))))])
            else:
                torchtt.reshape(x, [int(np.prod(gen.ints(x.N)))])
        elif h['prior'] == 'to_qtt':
            x.to_qtt()
        else:
            torchtt.permute(x, list(range(len(x.N)))[::-1])
        core.bump(stats, 'history.prior_' + h['prior'])
    except Exception:
        core.bump(stats, 'history.prior_raised')
    k = h['k'] % len(x.cores)
    c = x.cores[k]
    if h['how'] == 'random':
        new = gen.randn(list(c.shape), p['dt'], gen.vgen(h['vseed']))
    elif h['how'] == 'negate':
        new = -c
    else:
        new = c * 3.0
    x.set_core(k, new)
    core.bump(stats, 'probe.operand_with_history')


def exec_case(p, res, plans=None, rng=None):
    stats = res['stats']
    out = []
    x = build(p)
    if p.get('history'):
        apply_history(p, x, stats)
    snap = take_snap(x)
    call, No, Mo, ref = expected(p, x)
    fam = ('hist|' if p.get('history') else '') + ('graded|' if p.get('graded') else ('gauge_%s|' % p.get('gauge_kind')) if p.get('gauge') else ('zeros_%s|' % p['zeros']) if p.get('zeros') else '') + '%s|%s|din%d|dout%d|%s|%s|%s' % (p['routine'], p['dt'], len(p['N']), len(No), 'default' if p['eps'] is None else 'tiny' if p['eps'] < 1e-9 else 'eps',
                                           'in1' if p['N'][-1] == 1 else '', 'out1' if No and No[-1] == 1 else '')
    y0, exc, f0 = svdfault.run_with_plan(call, {})
    core.bump(stats, 'calls')
    n = f0.n_primary
    core.bump(stats, 'svd.primary_calls_fault_free', n)
    res['keys'].append(fam + '|free')
    desc0 = {'case': p, 'plan': None}
    r = check_unchanged(x, snap)
    if r is not None:
        out.append(core.violation(PROP, 'OPERAND', p['routine'], r[0], 'operand changed: ' + r[1], desc0))
        return out, n
    if exc is not None:
        out.append(core.violation(PROP, 'CONTRACT', p['routine'], 'raised:' + type(exc).__name__, 'fault-free call raised %s: %s' % (type(exc).__name__, str(exc)[:100]), desc0))
        return out, n
    c = contract(p, x, y0, No, Mo, ref)
    if c is not None:
        out.append(core.violation(PROP, 'CONTRACT', p['routine'], c[0], 'fault-free: ' + c[1], desc0))
    elif LAST.get('eps_ratio') is not None and LAST['eps_ratio'] > 0.5 and not p.get('gauge'):
        res['near'].append((round(LAST['eps_ratio'], 4), fam))
    elif p.get('gauge') and p.get('gauge_kind') == 'diag' and p['eps'] is None and LAST.get('u_ratio', 0) > 50:
        res['near'].append((round(LAST['u_ratio'], 1), 'u_ratio|' + fam))
    if plans is None:
        plans = svdfault.enumerate_plans(rng, n, max_single=10) if rng is not None else []
    for plan in plans:
        yf, excf, f = svdfault.run_with_plan(call, plan)
        core.bump(stats, 'calls')
        svdfault.branch_stats(f, stats)
        if f.fired_primary == 0:
            core.bump(stats, 'probe.svd_seam_unreached_or_plan_out_of_range')
            continue
        core.bump(stats, 'plans.' + plan.get('kind', '?'))
        res['keys'].append(fam + '|' + plan.get('kind', '?'))
        desc = {'case': p, 'plan': plan}
        r = check_unchanged(x, snap)
        if r is not None:
            out.append(core.violation(PROP, 'OPERAND', p['routine'], r[0], 'operand changed under plan %s: %s' % (plan, r[1]), desc))
            break
        if plan.get('Q') and f.fired_secondary > 0:
            if excf is None:
                out.append(core.violation(PROP, 'DOUBLE-FAULT', p['routine'], 'returned', 'both SVD backends failed and the call still returned an object', desc))
            continue
        if excf is not None:
            if c is not None and c[0].startswith('raised'):
                continue
            out.append(core.violation(PROP, 'FAULT-RECOVERY', p['routine'], 'raised:' + type(excf).__name__, 'primary SVD failed at call(s) %s and the fallback path raised %s: %s' % (
                'all' if plan.get('all') else plan['P'], type(excf).__name__, str(excf)[:100]), desc))
            continue
        cf = contract(p, x, yf, No, Mo, ref)
        if cf is not None and (c is None or cf[0] != c[0]):
            out.append(core.violation(PROP, 'FAULT-CONTRACT', p['routine'], cf[0], 'under plan %s: %s' % (plan, cf[1]), desc))
    return out, n


def run_one(rng, tier, res, opts):
    p = gen_case(rng)
    log = core.EventLog()
    viol, n = exec_case(p, res, rng=rng)
    for v in viol:
        res['viol'].append(v)
        log.add('VIOL', v['oracle'], v['field'])
    core.bump(res['stats'], 'runs')
    log.add('case', core.digest_of(p), n, sorted(res['stats'].items()))
    res['digest'] = log.digest()
    if res['i'] < 3:
        res['sample'] = {'run': res['i'], 'case': p, 'primary_svd_calls': n}


def replay(desc, opts):
    res = core.new_result(-1)
    plans = [desc['plan']] if desc.get('plan') else []
    viol, n = exec_case(desc['case'], res, plans=plans)
    return viol


def shrink_candidates(desc):
    p = desc['case']
    plan = desc.get('plan')
    if plan and len(plan.get('P', [])) > 1:
        for k in range(len(plan['P'])):
            yield {'case': p, 'plan': dict(plan, P=plan['P'][:k] + plan['P'][k + 1:])}
    if p['dt'] != 'f64':
        yield {'case': dict(p, dt='f64'), 'plan': plan}
    if any(r > 1 for r in p['R']):
        yield {'case': dict(p, R=[1] * len(p['R'])), 'plan': plan}
        yield {'case': dict(p, R=[1] + [min(r, 2) for r in p['R'][1:-1]] + [1]), 'plan': plan}
    if p['eps'] is not None:
        yield {'case': dict(p, eps=None), 'plan': plan}
    if p.get('history'):
        yield {'case': dict(p, history=None), 'plan': plan}
    if p.get('graded'):
        yield {'case': dict(p, graded=None), 'plan': plan}
    if p.get('gauge'):
        yield {'case': dict(p, gauge=None), 'plan': plan}
    if p['routine'] == 'reshape' and len(p['shape']) > 1:
        sh = p['shape']
        for k in range(len(sh) - 1):
            yield {'case': dict(p, shape=sh[:k] + [sh[k] * sh[k + 1]] + sh[k + 2:]), 'plan': plan}
    if p['routine'] in ('reshape',) and len(p['N']) > 1:
        N = p['N']
        for k in range(len(N) - 1):
            yield {'case': dict(p, N=N[:k] + [N[k] * N[k + 1]] + N[k + 2:], R=p['R'][:k + 1] + p['R'][k + 2:]), 'plan': plan}
