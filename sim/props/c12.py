"""
C12 - amen_solve returns x with ||Ax-b|| <= C*eps*||b|| on well conditioned
systems, for every solver configuration, every internal random stream and
under SVD-failure schedules (exploration).
"""
import math

import numpy as np
import torch

import torchtt
from torchtt import TT

from sim import core, gen, seams, svdfault
from sim.history import take_snap, check_unchanged, check_wf

PROP = 'C12'
LEVEL = 'exploration'
EVAL_KEY = 'runs'
C = 10.0
RUN_TIMEOUT = 120     # seconds; a solve that does not return is a violation (the systems have <= 2500 unknowns)
TIERS = {
    'quick': {'runs': 3000, 'opts': {}, 'chunk': 20},
    'thorough': {'runs': 150000, 'opts': {}, 'chunk': 60, 'time_cap': 1500},
}
RULE = ('per run: system class in {Kronecker of SPD factors, sum of 1-4 such terms, Laplacian-like sum of tridiagonal SPD, I+E with '
        '||E||_F=0.3}; order 2..5; mode sizes 2..12 with at most 2500 unknowns (dense oracle); rhs rank 1..4; eps=10^-k, k in 3..10; '
        'configuration = preconditioner {None,c,r} x max_full {0,500} x local_solver {GMRES,BiCGSTAB} x x0 {None, random rank 1, '
        'random rank 3} (+ band_diagonal {-1,1} for the Laplacian class); global torch PRNG seeded per run; primary SVD failures on '
        '25% of runs; 10-12% of runs are preceded in the same process by the same routine on other data of the same structure (history independence); distinct by (class, order, eps decade, preconditioner, max_full, local solver, x0 kind, band, fault kind)')
ASSUMPTIONS = ['single-threaded BLAS', 'oracle constant C=10 on the dense residual; generated systems have condition number <= ~500',
               'A, x, b densified by the checker\'s own contraction']
REAL = ['torchtt.solvers.amen_solve (_amen_solve_python, _LinearOp), _iterative_solvers (GMRES, BiCGSTAB) from the working tree', 'torch']
STUB = ['failure of torch.linalg.svd at planned call indices']


def spd(n, cond, g):
    q, _ = torch.linalg.qr(torch.randn([n, n], dtype=torch.float64, generator=g))
    lam = torch.logspace(0, math.log10(cond), n, dtype=torch.float64) if n > 1 else torch.ones(1, dtype=torch.float64)
    return (q * lam) @ q.t()


def kron_ttm(mats):
    return TT([m[None, :, :, None].clone() for m in mats])


def gen_case(rng):
    cls = rng.choice(['kron', 'kronsum', 'laplace', 'ipe'])
    d = rng.choice([2, 2, 3, 3, 4, 5])
    N = [rng.randint(2, 12) for _ in range(d)]
    while int(np.prod(N)) > 2500:
        k = N.index(max(N))
        N[k] = max(2, N[k] - 1)
    p = {'cls': cls, 'N': N, 'vseed': rng.getrandbits(31), 'tseed': rng.getrandbits(31)}
    p['Rb'] = [1] + [rng.randint(1, 4) for _ in range(d - 1)] + [1]
    p['eps'] = 10.0 ** (-rng.randint(3, 10))
    p['prec'] = rng.choice([None, None, 'c', 'r'])
    p['max_full'] = rng.choice([0, 500])
    p['ls'] = rng.choice([1, 1, 2])
    p['x0'] = rng.choice(['none', 'none', 'rank1', 'rank3', 'near', 'near', 'exact'])
    # 'near': the exact solution plus a relative perturbation between 10*eps and sqrt(eps) (a warm start from a coarser solve)
    p['near'] = rng.uniform(0.0, 1.0)
    p['band'] = -1
    # budget of the local iterative solver: fewer inner iterations per cycle with more restarts (same total work or more)
    p['li'], p['resets'] = rng.choice([(40, 2), (40, 2), (40, 2), (12, 8), (20, 4)])
    if p['ls'] == 2:
        # BiCGSTAB ignores `resets`: fewer inner iterations would simply be a weaker local solver, which the property
        # does not promise anything about (a thorough run found one such case at 16.8*eps) - keep the default budget
        p['li'], p['resets'] = 40, 2
    if cls == 'kronsum':
        p['terms'] = rng.randint(1, 4)
    if cls == 'ipe':
        p['RE'] = [1] + [rng.randint(1, 4) for _ in range(d - 1)] + [1]
    if cls == 'laplace':
        p['shift'] = rng.choice([0.05, 0.2, 1.0])
        p['band'] = rng.choice([-1, -1, 1])
        if rng.random() < 0.35:
            # the configuration in which one GMRES cycle is not enough: large modes, tight eps, iterative local solve,
            # no preconditioner (restarts, BiCGSTAB resets)
            d2 = rng.choice([2, 3])
            p['N'] = [rng.randint(10, 12) for _ in range(d2)]
            p['Rb'] = [1] + [rng.randint(1, 4) for _ in range(d2 - 1)] + [1]
            p['eps'] = 10.0 ** (-rng.randint(8, 10))
            p['prec'] = None
            p['max_full'] = rng.choice([0, 0, 500])
            p['shift'] = rng.choice([0.05, 0.2])
    r = rng.random()
    if r < 0.2:
        pts = sorted(set(rng.randint(0, 60) for _ in range(rng.randint(1, 4))))
        p['plan'] = {'P': pts, 'Q': [], 'all': False, 'kind': 'subset'}
        if rng.random() < 0.5:
            p['plan'] = {'P': [], 'frac': sorted(rng.choice([0.0, 0.05, 0.3, 0.5, 0.8, 0.95, 0.999]) for _ in range(rng.randint(1, 3))), 'Q': [], 'all': False, 'kind': 'fraction'}
    elif r < 0.25:
        p['plan'] = {'P': [], 'Q': [], 'all': True, 'kind': 'all'}
    else:
        p['plan'] = None
    # history dimension: the checked call is preceded, in the same process, by the same routine on other data of the same
    # structure (values from the seed below)
    p['prelude'] = rng.getrandbits(31) if rng.random() < 0.1 else None
    return p


def build(p):
    g = gen.vgen(p['vseed'])
    N = p['N']
    d = len(N)
    cls = p['cls']
    if cls in ('kron', 'kronsum'):
        terms = p.get('terms', 1)
        A = None
        for _ in range(terms):
            # per-factor condition numbers whose product stays <= ~400
            c = 400.0 ** (1.0 / d)
            T = kron_ttm([spd(n, 1.0 + (c - 1.0) * float(torch.rand(1, generator=g)), g) for n in N])
            A = T if A is None else A + T
    elif cls == 'laplace':
        s = p['shift']
        A = None
        for k in range(d):
            mats = []
            for j, n in enumerate(N):
                if j == k:
                    T = (2.0 + s) * torch.eye(n, dtype=torch.float64) - torch.diag(torch.ones(n - 1, dtype=torch.float64), 1) - torch.diag(torch.ones(n - 1, dtype=torch.float64), -1)
                    mats.append(T)
                else:
                    mats.append(torch.eye(n, dtype=torch.float64))
            T = kron_ttm(mats)
            A = T if A is None else A + T
        A = A.round(1e-13)
    else:
        E = TT(gen.rand_cores(N, p['RE'], 'f64', g, N))
        nE = gen.fro(gen.dense(E))
        A = torchtt.eye(N) + E * (0.3 / nE)
    b = TT(gen.rand_cores(N, p['Rb'], 'f64', g))
    x0 = None
    if p['x0'] in ('near', 'exact'):
        n = int(np.prod(N))
        Am = gen.dense(A).reshape(n, n)
        xt = torch.linalg.solve(Am, gen.dense(b).reshape(n)).reshape(N)
        x0 = TT(xt, eps=1e-13) if d > 1 else TT(xt)
        lo, hi = math.log10(10 * p['eps']), math.log10(math.sqrt(p['eps']))
        delta = 10 ** (lo + (hi - lo) * p.get('near', 0.5))
        pert = TT(gen.rand_cores(N, [1] * (d + 1), 'f64', g))
        if p['x0'] == 'near':
            x0 = x0 + pert * (delta * gen.fro(xt) / max(gen.fro(gen.dense(pert)), 1e-300))
    elif p['x0'] != 'none':
        r = 1 if p['x0'] == 'rank1' else 3
        x0 = TT(gen.rand_cores(N, [1] + [r] * (d - 1) + [1], 'f64', g))
    return A, b, x0


def family(p):
    return '%s|d%d|e%d|%s|mf%d|ls%d|%s|band%d|%s|li%d' % (p['cls'], len(p['N']), round(-math.log10(p['eps'])), p['prec'], p['max_full'], p['ls'], p['x0'], p['band'],
                                                       p['plan']['kind'] if p['plan'] else 'nofault', p.get('li', 40))


def solve(p, A, b, x0, use_cpp=False):
    return torchtt.solvers.amen_solve(A, b, x0=x0, eps=p['eps'], max_full=p['max_full'], local_solver=p['ls'], preconditioner=p['prec'],
                                      band_diagonal=p['band'], use_cpp=use_cpp, verbose=False, local_iterations=p.get('li', 40), resets=p.get('resets', 2))


def residual(A, x, b):
    Ad = gen.dense(A)
    n = int(np.prod(gen.ints(b.N)))
    Am = Ad.reshape(n, n)
    return gen.fro(Am @ gen.dense(x).reshape(n) - gen.dense(b).reshape(n)), gen.fro(gen.dense(b)), Am


def exec_case(p, res):
    stats = res['stats']
    out = []
    A, b, x0 = build(p)
    snaps = [(A, take_snap(A), 'A'), (b, take_snap(b), 'b')]
    if x0 is not None:
        snaps.append((x0, take_snap(x0), 'x0'))
    fam = family(p)
    res['keys'].append(fam)
    desc = {'case': p}
    seams.seed_global(p['tseed'])
    from sim.history import step_alarm, StepTimeout
    import sim.history as _h
    old_to = _h.STEP_TIMEOUT
    _h.STEP_TIMEOUT = RUN_TIMEOUT
    try:
        with step_alarm():
            if p['plan'] and p['plan'].get('frac') is not None:
                def _count():
                    seams.seed_global(p['tseed'])
                    return solve(p, A, b, x0)
                p = dict(p, plan=svdfault.resolve_fractions(p['plan'], _count))
                seams.seed_global(p['tseed'])
            if p.get('prelude') is not None:
                # history dimension: an earlier solve of a system of the same structure in this process
                pp = dict(p, vseed=p['prelude'], plan=None, prelude=None)
                try:
                    A2, b2, x02 = build(pp)
                    seams.seed_global(p['tseed'] ^ 0x5a5a5a)
                    solve(pp, A2, b2, x02)
                except StepTimeout:
                    raise
                except Exception:
                    core.bump(stats, 'history.prelude_raised')
                core.bump(stats, 'probe.call_with_history')
                seams.seed_global(p['tseed'])
            x, exc, f = svdfault.run_with_plan(lambda: solve(p, A, b, x0), p['plan'] or {})
    except StepTimeout as e_:
        x, exc, f = None, e_, seams.SVDFaults()
    finally:
        _h.STEP_TIMEOUT = old_to
    if isinstance(exc, StepTimeout):
        out.append(core.violation(PROP, 'HANG', 'amen_solve', 'no_return', 'amen_solve did not return within %d s (runs of this size take well under a second)' % RUN_TIMEOUT, desc))
        return out, None
    svdfault.branch_stats(f, stats)
    core.bump(stats, 'cfg.prec_%s' % p['prec'])
    core.bump(stats, 'cfg.max_full_%d' % p['max_full'])
    if p['max_full'] == 0:
        core.bump(stats, 'probe.iterative_local_solver_%s' % ('gmres' if p['ls'] == 1 else 'bicgstab'))
    if p['band'] >= 0:
        core.bump(stats, 'probe.band_diagonal_path')
    if p['plan'] and f.fired_primary == 0:
        core.bump(stats, 'probe.fault_plan_not_reached')
    for obj, snap, what in snaps:
        r = check_unchanged(obj, snap)
        if r is not None:
            out.append(core.violation(PROP, 'OPERAND', 'amen_solve', r[0], '%s changed: %s' % (what, r[1]), desc))
    if exc is not None:
        out.append(core.violation(PROP, 'RAISED', 'amen_solve', type(exc).__name__, 'amen_solve raised %s: %s' % (type(exc).__name__, str(exc)[:120]), desc))
        return out, None
    if not isinstance(x, TT):
        out.append(core.violation(PROP, 'RESULT', 'amen_solve', 'type', 'returned %s' % type(x).__name__, desc))
        return out, None
    r = check_wf(x, do_full=True)
    if r is not None:
        out.append(core.violation(PROP, 'RESULT', 'amen_solve', 'wf-' + r[0], r[1], desc))
        return out, None
    if x.is_ttm or gen.ints(x.N) != gen.ints(b.N):
        out.append(core.violation(PROP, 'RESULT', 'amen_solve', 'shape', 'x.N=%s, b.N=%s' % (x.N, b.N), desc))
        return out, None
    rn, bn, Am = residual(A, x, b)
    ratio = rn / (p['eps'] * bn)
    if not rn <= C * p['eps'] * bn:
        cond = float(torch.linalg.cond(Am))
        out.append(core.violation(PROP, 'RESIDUAL', 'amen_solve', 'residual', '||Ax-b||/||b|| = %.3g = %.3g * eps (eps=%.0e, cond=%.3g, ranks %s)' % (rn / bn, ratio, p['eps'], cond, gen.ints(x.R)), desc))
    elif ratio > 1.0:
        res['near'].append((round(ratio, 3), fam))
        core.bump(stats, 'probe.ratio_above_1')
    return out, ratio


def run_one(rng, tier, res, opts):
    p = gen_case(rng)
    log = core.EventLog()
    viol, ratio = exec_case(p, res)
    for v in viol:
        res['viol'].append(v)
        log.add('VIOL', v['oracle'], v['field'])
    core.bump(res['stats'], 'runs')
    log.add('case', core.digest_of(p), ratio, sorted(res['stats'].items()))
    res['digest'] = log.digest()
    if res['i'] < 3:
        res['sample'] = {'run': res['i'], 'case': p, 'residual_over_eps': ratio}


def replay(desc, opts):
    res = core.new_result(-1)
    viol, ratio = exec_case(desc['case'], res)
    return viol


def shrink_candidates(desc):
    p = desc['case']
    if p.get('plan'):
        yield {'case': dict(p, plan=None)}
    if p.get('prelude') is not None:
        yield {'case': dict(p, prelude=None)}
    if p['x0'] != 'none':
        yield {'case': dict(p, x0='none')}
    if p['prec'] is not None:
        yield {'case': dict(p, prec=None)}
    if p['ls'] != 1:
        yield {'case': dict(p, ls=1)}
    if p['max_full'] != 500:
        yield {'case': dict(p, max_full=500)}
    if p['band'] != -1:
        yield {'case': dict(p, band=-1)}
    d = len(p['N'])
    if d > 2:
        q = dict(p, N=p['N'][:-1], Rb=p['Rb'][:-2] + [1])
        if 'RE' in p:
            q['RE'] = p['RE'][:-2] + [1]
        yield {'case': q}
    if any(n > 3 for n in p['N']):
        yield {'case': dict(p, N=[min(n, 3) for n in p['N']])}
    if any(r > 1 for r in p['Rb']):
        yield {'case': dict(p, Rb=[1] * (d + 1))}
    if p.get('terms', 1) > 1:
        yield {'case': dict(p, terms=1)}
