"""Shared run/replay/shrink code of the two history-machine checks (C05, C06)."""
from sim import core, history


def summarize(trace):
    out = []
    for st in trace:
        s = '%s:%s(%s)' % (st['sid'], st['op'], ','.join(st['args']))
        if st.get('obs'):
            s += '@' + ','.join(str(o) for o in st['obs'])
        out.append(s)
    return out


def run_one(rng, tier, res, opts):
    lo, hi = opts.get('length', [40, 40])
    length = rng.randint(lo, hi)
    log = core.EventLog()
    M = history.run_history(rng, length, res, log, observe_prob=opts.get('observe_prob', 0.3))
    for v in M.viol:
        v['desc'] = {'trace': M.trace[:v['at']]}
        res['viol'].append(v)
    core.bump(res['stats'], 'runs')
    core.bump(res['stats'], 'heap_objects_final', len(M.S.entries))
    res['digest'] = log.digest()
    if res['i'] < 3:
        res['sample'] = {'run': res['i'], 'history': summarize(M.trace), 'first_steps_full': M.trace[:4]}


_LAST = {'digest': None}


def replay(desc, opts):
    res = core.new_result(-1)
    log = core.EventLog()
    M = history.replay_history(desc['trace'], res, log)
    _LAST['digest'] = log.digest()
    out = []
    for v in M.viol:
        v['desc'] = {'trace': M.trace[:v['at']]}
        out.append(v)
    return out


def last_digest():
    return _LAST['digest']


def shrink_candidates(desc):
    tr = desc['trace']
    n = len(tr)
    size = max(1, n // 2)
    while size >= 1:
        pos = n - size
        while pos >= 0:
            yield {'trace': tr[:pos] + tr[pos + size:]}
            pos -= size
        if size == 1:
            break
        size //= 2
    for k, st in enumerate(tr):
        if st.get('obs'):
            st2 = dict(st)
            st2.pop('obs')
            yield {'trace': tr[:k] + [st2] + tr[k + 1:]}


def extra_coverage(results, stats, opts):
    ops = {k[3:]: v for k, v in stats.items() if k.startswith('op.')}
    exc = {k[4:]: v for k, v in stats.items() if k.startswith('exc.')}
    bigrams = set()
    return {'operations_executed': ops, 'operations_raised': exc, 'distinct_operation_kinds': len(ops),
            'history_steps': stats.get('steps', 0)}
