"""Shared run/replay/shrink code of the two history-machine checks (C05, C06)."""
from sim import core, history


def summarize(trace):
    out = []
    for st in trace:
        s = '%s:%s(%s)' % (st['sid'], st['op'], ','.join(st['args']))
        if st.get('obs'):
            s += '@' + ','.join(str(o) for o in st['obs'])
        if st.get('svdfault'):
            s += '!svd'
        out.append(s)
    return out


BASE_CLASSES = [
    # (dtype, N, M) of the representative heap; every class gets a tensor, a second tensor of the same shape, a square
    # operator, a rectangular operator and a TT-SVD output (numpy ints in R)
    ('f64', [2, 3, 2], [3, 2, 2]),
    ('f64', [4, 1, 2], [2, 1, 3]),
    ('c128', [2, 2], [3, 2]),
    ('f32', [3, 2, 2], [2, 2, 2]),
    ('f64', [4], [3]),
    ('f64', [2, 2, 2, 2], [2, 2, 2, 2]),
]


def pair_space():
    names = [n for n in history.OPS if history.OPS[n].weight > 0 and n != 'create']
    return [(c, a, b) for c in range(len(BASE_CLASSES)) for a in names for b in names]


def run_pair(idx, rng, res, log):
    """Exhaustive part: every ordered pair of operation kinds on every representative heap class."""
    c, op1, op2 = pair_space()[idx]
    dt, N, M = BASE_CLASSES[c]
    d = len(N)
    R = [1] + [2] * (d - 1) + [1]
    M_ = history.Machine(res, log)
    base = [
        {'kind': 'cores', 'N': N, 'M': M, 'R': R, 'dt': dt, 'vseed': 11, 'eps': 1e-12},
        {'kind': 'cores', 'N': N, 'M': M, 'R': R, 'dt': dt, 'vseed': 12, 'eps': 1e-12},
        {'kind': 'cores_m', 'N': N, 'M': N, 'R': R, 'dt': dt, 'vseed': 13, 'eps': 1e-12},
        {'kind': 'cores_m', 'N': N, 'M': M, 'R': R, 'dt': dt, 'vseed': 14, 'eps': 1e-12},
        {'kind': 'svd', 'N': N, 'M': M, 'R': R, 'dt': dt, 'vseed': 15, 'eps': 1e-8},
    ]
    sid = 0
    for p in base:
        M_.step({'sid': str(sid), 'op': 'create', 'args': [], 'p': p, 'tseed': 1000 + sid})
        sid += 1
    done = 0
    for name in (op1, op2):
        pk = None
        for _ in range(20):
            pk = history.OPS[name].pick(rng, M_.S)
            if pk is not None:
                break
        if pk is None:
            continue
        M_.step({'sid': str(sid), 'op': name, 'args': list(pk[0]), 'p': pk[1], 'tseed': rng.getrandbits(31)})
        sid += 1
        done += 1
    core.bump(res['stats'], 'pairs_enumerated')
    if done == 2:
        core.bump(res['stats'], 'pairs_both_applicable')
    res['keys'].append('pair|%d|%s|%s' % (c, op1, op2))
    return M_


def run_one(rng, tier, res, opts):
    if opts.get('pairs') and res['i'] < len(pair_space()):
        log = core.EventLog()
        M = run_pair(res['i'], rng, res, log)
        for v in M.viol:
            v['desc'] = {'trace': M.trace[:v['at']]}
            res['viol'].append(v)
        core.bump(res['stats'], 'runs')
        res['digest'] = log.digest()
        return
    lo, hi = opts.get('length', [40, 40])
    length = rng.randint(lo, hi)
    log = core.EventLog()
    M = history.run_history(rng, length, res, log, observe_prob=opts.get('observe_prob', 0.3))
    for v in M.viol:
        v['desc'] = {'trace': M.trace[:v['at']]}
        res['viol'].append(v)
    core.bump(res['stats'], 'runs')
    core.bump(res['stats'], 'heap_objects_final', len(M.S.entries))
    res['digest'] = log.digest()
    if res['i'] < 3:
        res['sample'] = {'run': res['i'], 'history': summarize(M.trace), 'first_steps_full': M.trace[:4]}


_LAST = {'digest': None}


def replay(desc, opts):
    res = core.new_result(-1)
    log = core.EventLog()
    M = history.replay_history(desc['trace'], res, log)
    _LAST['digest'] = log.digest()
    out = []
    for v in M.viol:
        v['desc'] = {'trace': M.trace[:v['at']]}
        out.append(v)
    return out


def last_digest():
    return _LAST['digest']


def shrink_candidates(desc):
    tr = desc['trace']
    n = len(tr)
    size = max(1, n // 2)
    while size >= 1:
        pos = n - size
        while pos >= 0:
            yield {'trace': tr[:pos] + tr[pos + size:]}
            pos -= size
        if size == 1:
            break
        size //= 2
    for k, st in enumerate(tr):
        if st.get('obs'):
            st2 = dict(st)
            st2.pop('obs')
            yield {'trace': tr[:k] + [st2] + tr[k + 1:]}
        if st.get('svdfault'):
            st2 = dict(st)
            st2.pop('svdfault')
            yield {'trace': tr[:k] + [st2] + tr[k + 1:]}


def extra_coverage(results, stats, opts):
    ops = {k[3:]: v for k, v in stats.items() if k.startswith('op.')}
    exc = {k[4:]: v for k, v in stats.items() if k.startswith('exc.')}
    bigrams = set()
    out = {'operations_executed': ops, 'operations_raised': exc, 'distinct_operation_kinds': len(ops),
           'history_steps': stats.get('steps', 0)}
    if opts.get('pairs'):
        n = len(pair_space())
        out['exhaustive_sub_space'] = ('all %d ordered pairs (op1, op2) of operation kinds on each of %d representative heap classes were '
                                       'enumerated: %d enumerated, %d with both operations applicable' % (
                                           n // len(BASE_CLASSES), len(BASE_CLASSES), stats.get('pairs_enumerated', 0), stats.get('pairs_both_applicable', 0)))
    return out
