"""C06 - operations never change their operands (history machine, snapshot model)."""
from sim.props.hist_common import run_one, replay, shrink_candidates, extra_coverage, last_digest  # noqa

PROP = 'C06'
LEVEL = 'exploration'
EVAL_KEY = 'steps'
TIERS = {
    'quick': {'runs': 2000, 'opts': {'length': [40, 40]}, 'chunk': 20},
    'thorough': {'runs': 40000, 'opts': {'length': [40, 120], 'pairs': True}, 'chunk': 50, 'time_cap': 1500},
}
RULE = ('seeded histories of public torchtt calls over a heap of <=12 live, aliasing TT objects (order<=4, sizes<=4, '
        'creation ranks<=3); 30% of steps run under a line-event pre-emption observer, 12% of SVD-using steps under a primary-SVD failure plan; evaluations = executed history steps; a case is distinct by (operation, structure of every '
        'operand: kind/core shapes/dtype, outcome class) and non-trivial because every counted step executed library code '
        'on heap-derived operands')
ASSUMPTIONS = ['single-threaded BLAS (pinned) so that runs are bit-reproducible',
               'the well-formedness oracle reads cores/R/N/M/shape/is_ttm and full() only',
               'operations that raise are legitimate outcomes; the oracle is evaluated after them all the same']
REAL = ['torchtt (all of /repo/torchtt, imported from the working tree)', 'torch', 'numpy']
STUB = ['none: scheduler = seeded generator of operation histories; observer = sys.settrace line events']
