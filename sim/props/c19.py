"""
C19 - copies and save/load round trips (DESIGN.md 3.5, section 4).

Simulated storage behind torch.save/torch.load (write errors at planned write
indices, torn files left behind, overwrites, missing files), interleaved with
clone/detach/to/cpu/numpy and in-place mutation of the original.

Reference model: dict path -> snapshot | INDETERMINATE.  A save that returned
makes the path map to the object's snapshot at that moment; a save that raised
makes the path indeterminate (nothing asserted until the next successful save).
"""
import io
import os
import json
import shutil
import tempfile

import numpy as np
import torch

import torchtt
from torchtt import TT

from sim import core, gen, seams
from sim.history import take_snap, check_unchanged, check_wf

PROP = 'C19'
LEVEL = 'fault_enumeration'
EVAL_KEY = 'steps'
TIERS = {
    'quick': {'runs': 8000, 'opts': {'length': [10, 16], 'enum_prob': 0.15}, 'chunk': 50},
    'thorough': {'runs': 80000, 'opts': {'length': [10, 30], 'enum_prob': 1.0}, 'chunk': 50, 'time_cap': 1200},
}
RULE = ('seeded histories over {create, save(path), save(file object), load, clone, detach, to, cpu, numpy, in-place mutation of '
        'the original, overwrite}; storage faults: ENOSPC at a planned write index (exhaustive over every write index of a save in '
        'enumerating steps), torn file left behind, overwrite-then-fail, load of a missing path; evaluations = executed steps; a '
        'case is distinct by (operation, object structure: kind/core shapes/dtype/provenance, fault position class, outcome)')
ASSUMPTIONS = ['torch.save/torch.load themselves are trusted (the real serialiser runs; only the disk is simulated)',
               'short writes/reads and bit flips are not injected: torch ignores write() return values and does not verify CRCs, '
               'and the property promises nothing about corrupted media',
               'a save that raised leaves an indeterminate file: nothing is asserted about loading it']
REAL = ['torchtt.save/load/clone/detach/to/cpu/numpy from the working tree', 'torch.save / torch.load (real serialiser)']
STUB = ['disk: in-memory SimFS (dict path -> bytes) behind torchtt._extras.tn.save/load, written through to real files in a per-run '
        'temporary directory so that memory-mapped loads behave as on a disk']

INDET = 'INDETERMINATE'


# --------------------------------------------------------------------------
# object creation: every structure class named by the property

def create(p):
    g = gen.vgen(p['vseed'])
    N, R, dt = p['N'], p['R'], p['dt']
    M = p.get('M')
    kind = p['kind']
    if kind == 'cores':
        x = TT(gen.rand_cores(N, R, dt, g, M))
    elif kind == 'svd':
        # TT-SVD output: R holds numpy integers (rank_chop returns np.argmax)
        if M is None:
            full = gen.dense_from_cores(gen.rand_cores(N, R, dt, g))
            full = full + 1e-3 * gen.randn(list(full.shape), dt, g)
            x = TT(full, eps=p['eps'])
        else:
            full = gen.dense_from_cores(gen.rand_cores(N, R, dt, g, M))
            full = full + 1e-3 * gen.randn(list(full.shape), dt, g)
            x = TT(full, [(m, n) for m, n in zip(M, N)], eps=p['eps'])
    elif kind == 'svd_npshape':
        # explicit shape argument computed with numpy: the object's shape/N lists then hold numpy integers
        if M is None:
            full = gen.dense_from_cores(gen.rand_cores(N, R, dt, g))
            x = TT(full.reshape(-1), shape=list(np.array(N)), eps=p['eps'])
        else:
            full = gen.dense_from_cores(gen.rand_cores(N, R, dt, g, M))
            x = TT(full, [(m, n) for m, n in zip(np.array(M), np.array(N))], eps=p['eps'])
    elif kind == 'sliced':
        # non-contiguous core views
        big = TT(gen.rand_cores([n + 2 for n in N], R, dt, g))
        idx = tuple(slice(1, n + 1) if k % 2 == 0 else slice(0, n + 2, 2) for k, n in enumerate(N))
        x = big[idx]
        if not isinstance(x, TT):
            x = TT(gen.rand_cores(N, R, dt, g))
    elif kind == 'conj':
        x = TT(gen.rand_cores(N, R, dt, g, M)).conj()
    elif kind == 'transposed':
        x = TT(gen.rand_cores(N, R, dt, g, M or N)).t()
    elif kind == 'watched':
        x = TT(gen.rand_cores(N, R, dt, g, M))
        torchtt.grad.watch(x)
    elif kind == 'rounded':
        y = TT(gen.rand_cores(N, R, dt, g, M))
        x = (y + y).round(1e-10)
    else:
        raise ValueError(kind)
    return x


def gen_create(rng):
    d = rng.choice([1, 1, 2, 2, 3, 3, 4, 5, 6])
    N = [rng.randint(1, 4) for _ in range(d)]
    R = [1] + [rng.randint(1, 3) for _ in range(d - 1)] + [1]
    kind = rng.choice(['cores', 'cores', 'svd', 'svd', 'svd_npshape', 'sliced', 'conj', 'transposed', 'watched', 'rounded'])
    dt = rng.choice(['f64', 'f64', 'f32', 'c128', 'c64'])
    ttm = rng.random() < 0.4 and kind not in ('sliced',)
    if kind == 'transposed':
        ttm = True
    if kind == 'watched' and dt in ('c64',):
        dt = 'c128'
    M = [rng.randint(1, 4) for _ in range(d)] if ttm else None
    if kind == 'svd' and d == 1:
        pass
    return {'kind': kind, 'N': N, 'R': R, 'M': M, 'dt': dt, 'vseed': rng.getrandbits(31), 'eps': rng.choice([1e-12, 1e-6, 1e-2])}


def provenance(x):
    cs = x.cores
    tags = []
    if any(not c.is_contiguous() for c in cs):
        tags.append('noncontig')
    if any(c.is_conj() for c in cs):
        tags.append('conjbit')
    if any(c.requires_grad for c in cs):
        tags.append('grad')
    if any(isinstance(r, np.integer) for r in x.R):
        tags.append('npintR')
    return '+'.join(tags) or 'plain'


def storage_ptrs(x):
    return set(c.untyped_storage().data_ptr() for c in x.cores if c.numel() > 0)


# --------------------------------------------------------------------------
# the machine

class Machine:
    def __init__(self, res, log):
        self.res = res
        self.log = log
        self.root = tempfile.mkdtemp(prefix='verif-c19-')
        self.fs = seams.SimFS()
        self.fs.write_through = True
        self.fs.wrap_file_objects = True
        self.loaded = {}     # sid -> (object returned by load, snapshot at load time)
        self.copies = {}     # sid -> (detach/cpu/to result, its source, snapshot): metadata must stay independent
        self.objs = {}       # sid -> TT
        self.snaps = {}      # sid -> snapshot (kept current for originals)
        self.clones = {}     # sid -> (clone, snapshot at clone time)
        self.model = {}      # path -> snapshot | INDET
        self.bufs = {}       # name -> BytesIO
        self.viol = []
        self.trace = []
        self.trace_file = None

    def close(self):
        shutil.rmtree(self.root, ignore_errors=True)

    def path(self, name):
        return os.path.join(self.root, name)

    def report(self, oracle, op, field, msg):
        v = core.violation('C19', oracle, op, field, msg, None)
        v['at'] = len(self.trace)
        self.viol.append(v)
        self.log.add('VIOL', oracle, op, field)

    def key(self, op, x, fault, outcome):
        s = gen.struct(x) if x is not None else None
        self.res['keys'].append('%s|%s|%s|%s|%s' % (op, s, provenance(x) if x is not None else '', fault, outcome))

    # -- oracles ----------------------------------------------------------
    def compare_loaded(self, op, y, snap):
        if not isinstance(y, TT):
            self.report('ROUNDTRIP', op, 'type', 'load returned %s' % type(y).__name__)
            return
        r = check_wf(y, do_full=True)
        if r is not None:
            self.report('ROUNDTRIP', op, 'wf-' + r[0], r[1])
            return
        r = check_unchanged(y, snap)
        if r is not None:
            self.report('ROUNDTRIP', op, r[0], 'loaded object differs from the object at save time: ' + r[1])

    def check_loaded(self, op):
        # an object returned by load() is independent of the file afterwards: overwriting or tearing the file must
        # not reach into it
        for sid, (y, snap) in list(self.loaded.items()):
            r = check_unchanged(y, snap)
            if r is not None:
                self.report('LOAD-INDEPENDENT', op, r[0], 'object loaded at step %s changed afterwards: %s' % (sid, r[1]))
                del self.loaded[sid]

    def check_copies(self, op):
        # detach()/cpu()/to() may share tensor storage with their source, but not the N/M/R lists: after set_core or
        # reduce_dims on one object the other must still describe its own cores
        from sim.history import check_wf as _wf
        for sid, (y, src, snap) in list(self.copies.items()):
            r = _wf(y)
            if r is not None:
                self.report('COPY-INDEPENDENT', op, r[0], 'copy made at step %s no longer describes its own cores after its source was modified in place: %s' % (sid, r[1]))
                del self.copies[sid]

    def check_clones(self, op):
        for sid, (c, snap) in list(self.clones.items()):
            r = check_unchanged(c, snap)
            if r is not None:
                self.report('CLONE-INDEPENDENT', op, r[0], 'clone made at step %s changed after the original was modified: %s' % (sid, r[1]))
                del self.clones[sid]

    # -- steps --------------------------------------------------------------
    def step(self, st):
        op = st['op']
        p = st['p']
        stats = self.res['stats']
        if self.trace_file:
            with open(self.trace_file, 'w') as fh:
                json.dump(self.trace + [st], fh, default=str)
        if op != 'create':
            if st['x'] not in self.objs:
                self.log.add('skip', st['sid'], op)
                return
        self.trace.append(st)
        core.bump(stats, 'steps')
        core.bump(stats, 'op.' + op)
        seams.seed_global(st['tseed'])
        x = self.objs.get(st.get('x'))
        getattr(self, 'op_' + op)(st, p, x)
        self.check_clones(op)
        self.check_loaded(op)
        if op == 'mutate':
            self.check_copies(op)

    def op_create(self, st, p, x):
        try:
            x = create(p)
        except Exception as e:
            self.log.add('create-exc', type(e).__name__)
            core.bump(self.res['stats'], 'probe.create_raised')
            return
        if not isinstance(x, TT):
            return
        self.objs[st['sid']] = x
        self.snaps[st['sid']] = take_snap(x)
        self.key('create', x, '', provenance(x))
        self.log.add('create', st['sid'], gen.cores_sha(x.cores))

    def _save(self, x, target, fail_at):
        """Returns (acknowledged, nwrites, exception)."""
        if isinstance(target, str):
            self.fs.next_fail = fail_at
            self.fs.last_nwrites = None
            try:
                torchtt.save(x, target)
                ack, exc = True, None
            except Exception as e:
                ack, exc = False, e
            self.fs.next_fail = None
            nw = self.fs.last_nwrites
            if nw is None:
                # the storage seam was not reached (e.g. save opens the file itself)
                core.bump(self.res['stats'], 'probe.storage_seam_unreached')
            return ack, nw, exc
        f = seams.SimFile(self.fs, '<buffer>', fail_at)
        try:
            torchtt.save(x, f)
            ack, exc = True, None
        except Exception as e:
            ack, exc = False, e
        return ack, f.nwrites, exc, f

    def op_save(self, st, p, x):
        stats = self.res['stats']
        path = self.path(p['name'])
        snap_before = take_snap(x)
        fail_at = p.get('fail_at')
        existed = path in self.model
        ack, nw, exc = self._save(x, path, fail_at)
        fired = fail_at is not None and nw is not None and nw > fail_at
        r = check_unchanged(x, snap_before)
        if r is not None:
            self.report('SAVE-OPERAND', 'save', r[0], 'save changed the object being saved: ' + r[1])
        if fired:
            core.bump(stats, 'fault.save_with_write_error')
            if existed:
                core.bump(stats, 'fault.overwrite_then_fail')
            if ack:
                # acknowledged although a write failed: the file must still be good, checked on load
                core.bump(stats, 'probe.save_acknowledged_despite_write_error')
                self.model[path] = snap_before
            else:
                self.model[path] = INDET
            self.key('save', x, 'fail@%s' % ('first' if fail_at == 0 else 'last' if fail_at == nw - 1 else 'mid'), 'ack' if ack else 'raised')
        else:
            if ack:
                self.model[path] = snap_before
                core.bump(stats, 'saves_acknowledged')
                self.key('save', x, 'none', 'ack')
            else:
                # no fault fired and save raised: a save in the property's domain must succeed
                self.model[path] = INDET
                self.report('SAVE-FAILED', 'save', type(exc).__name__, 'save raised without any injected fault: %s' % str(exc)[:120])
        self.log.add('save', st['sid'], p['name'], fail_at, ack, nw)
        st['_nw'] = nw

    def op_save_enum(self, st, p, x):
        """Exhaustive single-fault enumeration: fail every write index of this save once."""
        stats = self.res['stats']
        path = self.path(p['name'])
        snap = take_snap(x)
        ack, nw, exc = self._save(x, path, None)
        if not ack or nw is None:
            self.model[path] = INDET
            if not ack:
                self.report('SAVE-FAILED', 'save', type(exc).__name__, 'save raised without any injected fault: %s' % str(exc)[:120])
            return
        self.model[path] = snap
        core.bump(stats, 'probe.exhaustive_write_index_enumerations')
        for k in range(nw):
            pk = self.path(p['name'] + '.f%d' % k)
            ack, nwk, exc = self._save(x, pk, k)
            core.bump(stats, 'fault.save_with_write_error')
            core.bump(stats, 'steps')
            if ack:
                core.bump(stats, 'probe.save_acknowledged_despite_write_error')
                # acknowledged => must load exactly
                try:
                    y = torchtt.load(pk)
                except Exception as e:
                    self.report('SAVE-ACK', 'save', 'lost', 'save returned normally although write %d failed, and the file does not load: %s' % (k, type(e).__name__))
                    continue
                self.compare_loaded('save', y, snap)
            self.fs.files.pop(pk, None)
        # the good file must be intact after all the failed saves to other paths
        try:
            y = torchtt.load(path)
            self.compare_loaded('load', y, snap)
        except Exception as e:
            self.report('ROUNDTRIP', 'load', type(e).__name__, 'load of an acknowledged save raised: %s' % str(e)[:120])
        self.key('save_enum', x, 'all', nw)
        self.log.add('save_enum', st['sid'], p['name'], nw)

    def op_save_buf(self, st, p, x):
        snap = take_snap(x)
        ack, nw, exc, f = self._save(x, None, p.get('fail_at'))
        fired = p.get('fail_at') is not None and nw > p['fail_at']
        name = 'buf:' + p['name']
        if fired:
            core.bump(self.res['stats'], 'fault.save_with_write_error')
            self.model[name] = snap if ack else INDET
        elif ack:
            self.model[name] = snap
        else:
            self.model[name] = INDET
            self.report('SAVE-FAILED', 'save_buf', type(exc).__name__, 'save to a file object raised without any injected fault: %s' % str(exc)[:120])
        self.bufs[name] = f.getvalue()
        self.key('save_buf', x, 'fail' if fired else 'none', 'ack' if ack else 'raised')
        self.log.add('save_buf', st['sid'], name, ack, nw)

    def op_load(self, st, p, x):
        stats = self.res['stats']
        if p['name'].startswith('buf:'):
            name = p['name']
            if name not in self.bufs:
                return
            target = io.BytesIO(self.bufs[name])
            m = self.model.get(name)
        else:
            name = self.path(p['name'])
            target = name
            m = self.model.get(name)
        try:
            y = torchtt.load(target)
            exc = None
        except Exception as e:
            y, exc = None, e
        if m is None:
            # never written
            if exc is None:
                self.report('ROUNDTRIP', 'load', 'phantom', 'load of a path that was never written returned an object')
            self.key('load', None, 'missing', 'raised' if exc else 'returned')
        elif m is INDET or m == INDET:
            core.bump(stats, 'loads_of_indeterminate_files')
            self.key('load', None, 'torn', 'raised' if exc else 'returned')
        else:
            core.bump(stats, 'loads_checked')
            if exc is not None:
                self.report('ROUNDTRIP', 'load', type(exc).__name__, 'load of an acknowledged save raised: %s' % str(exc)[:120])
            else:
                self.compare_loaded('load', y, m)
                self.key('load', y if isinstance(y, TT) else None, 'none', 'ok')
                if isinstance(y, TT) and not p['name'].startswith('buf:'):
                    try:
                        self.loaded[st['sid']] = (y, take_snap(y))
                        if len(self.loaded) > 6:
                            self.loaded.pop(next(iter(self.loaded)))
                    except Exception:
                        pass
        self.log.add('load', st['sid'], p['name'], type(exc).__name__ if exc else gen.cores_sha(y.cores) if isinstance(y, TT) else '?')

    def op_copy(self, st, p, x):
        o = p['o']
        snap = take_snap(x)
        try:
            if o == 'clone':
                y = x.clone()
            elif o == 'detach':
                y = x.detach()
            elif o == 'cpu':
                y = x.cpu()
            elif o == 'to':
                y = x.to(dtype=gen.DTYPES[p['dt']] if p['dt'] else None)
            elif o == 'numpy':
                y = x.detach().numpy() if any(c.requires_grad for c in x.cores) else x.numpy()
            else:
                raise ValueError(o)
        except Exception as e:
            self.report('COPY-VALUE', o, type(e).__name__, '%s raised: %s' % (o, str(e)[:120]))
            return
        r = check_unchanged(x, snap)
        if r is not None:
            self.report('COPY-OPERAND', o, r[0], '%s changed its operand: %s' % (o, r[1]))
        if o == 'numpy':
            ref = gen.dense(x)
            if ref.is_conj():
                ref = ref.resolve_conj()
            ref = ref.numpy()
            if not isinstance(y, np.ndarray) or list(y.shape) != list(ref.shape) or y.dtype != ref.dtype:
                self.report('COPY-VALUE', o, 'shape', 'numpy() returned %s %s, expected %s %s' % (getattr(y, 'shape', None), getattr(y, 'dtype', None), ref.shape, ref.dtype))
            else:
                u = gen.UNIT_ROUNDOFF[gen.DT_NAME[x.cores[0].dtype]]
                scale = float(np.linalg.norm(ref.reshape(-1))) + 1e-300
                err = float(np.linalg.norm((y - ref).reshape(-1))) / scale
                if not err <= 200 * u * max(1, len(x.cores)):
                    self.report('COPY-VALUE', o, 'value', 'numpy() differs from the dense value by %.3g (relative)' % err)
            self.key(o, x, '', 'ok')
            self.log.add('copy', st['sid'], o)
            return
        if not isinstance(y, TT):
            self.report('COPY-VALUE', o, 'type', '%s returned %s' % (o, type(y).__name__))
            return
        r = check_wf(y, do_full=True)
        if r is not None:
            self.report('COPY-VALUE', o, 'wf-' + r[0], r[1])
            return
        if o == 'to' and p['dt'] is not None:
            want = gen.DTYPES[p['dt']]
            exp_snap = dict(snap)
            exp = [c.detach().to(want) for c in x.cores]
            exp_snap['cb'] = [gen.core_bytes(c) for c in exp]
            exp_snap['dt'] = [str(want)] * len(exp)
            r = check_unchanged(y, exp_snap)
        else:
            r = check_unchanged(y, snap)
        if r is not None:
            self.report('COPY-VALUE', o, r[0], '%s result differs from the original: %s' % (o, r[1]))
        if o == 'detach' and any(c.requires_grad for c in y.cores):
            self.report('COPY-VALUE', o, 'requires_grad', 'detach() result still requires grad')
        if o == 'clone':
            if y.cores is x.cores:
                self.report('CLONE-INDEPENDENT', o, 'cores_list', 'clone shares the cores list with the original')
            shared = storage_ptrs(x) & storage_ptrs(y)
            if shared:
                self.report('CLONE-INDEPENDENT', o, 'storage', 'clone shares %d storage(s) with the original' % len(shared))
            else:
                self.clones[st['sid']] = (y, take_snap(y))
        if o in ('detach', 'cpu', 'to'):
            self.copies[st['sid']] = (y, x, take_snap(y))
            if len(self.copies) > 6:
                self.copies.pop(next(iter(self.copies)))
        if p.get('keep'):
            self.objs[st['sid']] = y
            self.snaps[st['sid']] = take_snap(y)
        self.key(o, x, p.get('dt') or '', 'ok')
        self.log.add('copy', st['sid'], o, gen.cores_sha(y.cores))

    def op_mutate(self, st, p, x):
        """The caller modifies the original in place (documented API or a direct tensor write)."""
        o = p['o']
        g = gen.vgen(p['vseed'])
        # clones that are the target themselves, or that legitimately share storage with it (a detach()/cpu() of a
        # clone that was kept), stop being watched; storage disjointness from the original was checked at clone time
        ptrs = storage_ptrs(x)
        for sid, (c, snap) in list(self.clones.items()):
            if c is x or (storage_ptrs(c) & ptrs):
                del self.clones[sid]
        try:
            if o == 'set_core':
                k = p['k'] % len(x.cores)
                c = x.cores[k]
                sh = list(c.shape)
                if p.get('resize'):
                    # a core with another mode size: N/M/shape of *this* object change, copies must not notice
                    for ax in range(1, len(sh) - 1):
                        sh[ax] = sh[ax] % 4 + 1
                x.set_core(k, gen.randn(sh, gen.DT_NAME[c.dtype], g))
            elif o == 'reduce_dims':
                x.reduce_dims()
            elif o == 'mul_':
                k = p['k'] % len(x.cores)
                with torch.no_grad():
                    x.cores[k].mul_(2.0)
            elif o == 'zero_':
                k = p['k'] % len(x.cores)
                with torch.no_grad():
                    x.cores[k].zero_()
            core.bump(self.res['stats'], 'mutations_applied')
        except Exception as e:
            self.log.add('mutate-exc', type(e).__name__)
        # the model of the *object* moves on; files and clones must not
        for sid, obj in list(self.objs.items()):
            try:
                self.snaps[sid] = take_snap(obj)
            except Exception:
                del self.objs[sid]
        self.key('mutate', x, o, '')
        self.log.add('mutate', st['sid'], o)


def gen_step(rng, M, sid, opts):
    have = list(M.objs.keys())
    names = sorted(set(os.path.basename(k) for k in M.model.keys() if not k.startswith('buf:')))
    bufs = sorted(k for k in M.model.keys() if k.startswith('buf:'))
    if len(have) < 2:
        op = 'create'
    else:
        op = rng.choices(['create', 'save', 'save_enum', 'save_buf', 'load', 'copy', 'mutate'], [2, 4, 4 * opts.get('enum_prob', 0.15), 1, 5, 4, 3])[0]
    st = {'sid': sid, 'op': op, 'tseed': rng.getrandbits(31)}
    if op == 'create':
        st['p'] = gen_create(rng)
        return st
    st['x'] = rng.choice(have)
    if op in ('save', 'save_enum', 'save_buf'):
        reuse = names and rng.random() < 0.4
        name = rng.choice(names) if reuse else 'f%s.tt' % sid
        st['p'] = {'name': name}
        if op != 'save_enum' and rng.random() < 0.45:
            # a save takes 10 + 13*ncores writes or so; aim inside it
            x = M.objs[st['x']]
            guess = 10 + 13 * len(x.cores)
            st['p']['fail_at'] = rng.randint(0, guess) if rng.random() < 0.8 else rng.choice([0, 1, 2])
        return st
    if op == 'load':
        cands = names + bufs
        if not cands or rng.random() < 0.05:
            st['p'] = {'name': 'never-written.tt'}
        else:
            st['p'] = {'name': rng.choice(cands)}
        return st
    if op == 'copy':
        o = rng.choice(['clone', 'clone', 'detach', 'cpu', 'to', 'to', 'numpy'])
        x = M.objs[st['x']]
        dt = None
        if o == 'to':
            cur = gen.DT_NAME[x.cores[0].dtype]
            if cur in ('c128', 'c64'):
                dt = rng.choice(['c128', 'c64', None])
            else:
                dt = rng.choice(['f64', 'f32', 'c128', None])
        st['p'] = {'o': o, 'dt': dt, 'keep': rng.random() < 0.3}
        return st
    st['p'] = {'o': rng.choice(['set_core', 'set_core', 'reduce_dims', 'mul_', 'mul_', 'zero_']), 'k': rng.randint(0, 5), 'vseed': rng.getrandbits(31),
               'resize': rng.random() < 0.5}
    return st


def run_one(rng, tier, res, opts):
    lo, hi = opts.get('length', [10, 16])
    length = rng.randint(lo, hi)
    log = core.EventLog()
    M = Machine(res, log)
    M.trace_file = opts.get('_trace_file')
    try:
        with seams.Storage(M.fs, M.root):
            for k in range(length):
                st = gen_step(rng, M, str(k), opts)
                M.step(st)
    finally:
        M.close()
    finish(M, res, log)
    if res['i'] < 3:
        res['sample'] = {'run': res['i'], 'history': M.trace}


def finish(M, res, log):
    for v in M.viol:
        v['desc'] = {'trace': [{k: w for k, w in st.items() if not k.startswith('_')} for st in M.trace[:v['at']]]}
        res['viol'].append(v)
    core.bump(res['stats'], 'runs')
    for k, v in M.fs.stats.items():
        core.bump(res['stats'], k, v)
    res['digest'] = log.digest()


def crash_violation(rng, tier, opts, signum):
    tf = opts.get('_trace_file')
    with open(tf) as fh:
        trace = json.load(fh)
    op = trace[-1]['op'] if trace else '?'
    return core.violation(PROP, 'CRASH', op, 'signal%d' % signum, 'the interpreter was killed by signal %d during this history' % signum,
                          {'trace': [{k: w for k, w in st.items() if not k.startswith('_')} for st in trace]})


_LAST = {'digest': None}


def replay(desc, opts):
    res = core.new_result(-1)
    log = core.EventLog()
    M = Machine(res, log)
    try:
        with seams.Storage(M.fs, M.root):
            for st in desc['trace']:
                M.step(dict(st))
    finally:
        M.close()
    finish(M, res, log)
    _LAST['digest'] = log.digest()
    return res['viol']


def last_digest():
    return _LAST['digest']


def shrink_candidates(desc):
    tr = desc['trace']
    n = len(tr)
    for k in range(n - 1, -1, -1):
        yield {'trace': tr[:k] + tr[k + 1:]}
    for k, st in enumerate(tr):
        if st['op'] == 'create':
            p = st['p']
            if len(p['N']) > 1:
                q = dict(p)
                q['N'] = p['N'][:-1]
                q['R'] = p['R'][:-2] + [1]
                if p.get('M'):
                    q['M'] = p['M'][:-1]
                yield {'trace': tr[:k] + [dict(st, p=q)] + tr[k + 1:]}
            if p['dt'] != 'f64':
                yield {'trace': tr[:k] + [dict(st, p=dict(p, dt='f64'))] + tr[k + 1:]}
            if p['kind'] != 'cores':
                yield {'trace': tr[:k] + [dict(st, p=dict(p, kind='cores'))] + tr[k + 1:]}


def extra_coverage(results, stats, opts):
    return {'exhaustive_sub_space': 'in save_enum steps every write index of the save is failed once (count in probes)',
            'operations_executed': {k[3:]: v for k, v in stats.items() if k.startswith('op.')}}
