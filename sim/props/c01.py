"""
C01 - TT-SVD accuracy/rank contract under every schedule of primary-SVD
failures (fault_enumeration, narrow: see DESIGN.md 1.1, 3.4, section 4).
"""
import math

import numpy as np
import torch

import torchtt
from torchtt import TT

from sim import core, gen, seams, svdfault

PROP = 'C01'
LEVEL = 'fault_enumeration'
EVAL_KEY = 'decompositions'
TIERS = {
    'quick': {'runs': 20000, 'opts': {}, 'chunk': 100},
    'thorough': {'runs': 800000, 'opts': {}, 'chunk': 200, 'time_cap': 1200},
}
RULE = ('seeded dense sources with known structure (low rank + noise near the per-bond allowance; super-diagonal spectra that '
        'saturate every bond; exact integer ties; tall unfoldings), each decomposed fault-free and then under every single '
        'primary-SVD failure, the all-fail plan, two seeded subsets and one double fault; evaluations = decompositions executed; '
        'distinct by (class, order, tensor/operator, dtype, source, rmax kind, fault-plan kind, branch of the SVD wrapper hit)')
ASSUMPTIONS = ['the universal quantifier over inputs is sampled, not decided; what is enumerated exhaustively is the set of single '
               'primary-SVD failures of each decomposition',
               'numpy.linalg.svd is a correct SVD (it is the recovery path under test, its arithmetic is trusted)',
               'fault-free vs fault run agreement is only asserted for generic (tie-free) spectra, with a tolerance scaled by ||A||/gap at the truncation points, and skipped where that gap (less twice the truncation error) is below 1e-3*||A|| or where the two runs chose different ranks (both satisfy the contract then)']
REAL = ['torchtt.TT constructor, to_tt, mat_to_tt, rank_chop, SVD wrapper (working tree)', 'torch.linalg.svd', 'numpy.linalg.svd']
STUB = ['the failure of torch.linalg.svd (raised by the harness at planned call indices)']

PYTH = [([12, 4, 3], 13), ([2, 2, 1], 3), ([6, 3, 2], 7), ([8, 4, 1], 9), ([7, 4, 4], 9), ([9, 6, 2], 11), ([12, 3, 4], 13),
        ([10, 10, 5], 15), ([14, 5, 2], 15), ([16, 8, 4, 3, 2, 2, 1, 1], None)]


def orth(n, dt, g):
    q, _ = torch.linalg.qr(gen.randn([n, n], dt, g))
    return q


def superdiag(s, d, n, dt, g, rotate=True):
    """Tensor sum_i s_i e_i x ... x e_i (every unfolding has singular values s),
    rotated by a random orthogonal/unitary matrix in each mode."""
    r = len(s)
    t = torch.zeros([n] * d, dtype=gen.DTYPES[dt])
    for i, v in enumerate(s):
        t[(i,) * d] = v
    if rotate:
        for k in range(d):
            q = orth(n, dt, g)
            t = torch.movedim(torch.tensordot(q, t, dims=([1], [k])), 0, k)
    return t


def gen_case(rng):
    cls = rng.choices(['lowrank', 'lowrank_noise', 'saturate', 'tie', 'tall', 'random'], [2, 4, 3, 2, 2, 1])[0]
    dt = rng.choice(['f64', 'f64', 'f64', 'c128', 'f32', 'c64'])
    p = {'cls': cls, 'dt': dt, 'vseed': rng.getrandbits(31), 'src': rng.choice(['torch', 'torch', 'numpy']),
         'ttm': False, 'shape_arg': rng.random() < 0.3, 'rmax': None}
    if cls in ('lowrank', 'lowrank_noise', 'random'):
        d = rng.choice([1, 2, 2, 3, 3, 4, 4, 5, 6])
        nmax = {1: 8, 2: 8, 3: 8, 4: 6, 5: 4, 6: 3}[d]
        p['N'] = [rng.randint(1, nmax) if rng.random() < 0.85 else 1 for _ in range(d)]
        p['R'] = [1] + [rng.randint(1, 4) for _ in range(d - 1)] + [1]
        p['ttm'] = rng.random() < 0.3 and d <= 4
        if p['ttm']:
            mmax = {1: 6, 2: 6, 3: 4, 4: 3}[d]
            p['N'] = [min(n, mmax) for n in p['N']]
            p['M'] = [rng.randint(1, mmax) for _ in range(d)]
        p['eps'] = 10 ** rng.uniform(-9, -0.4) if cls != 'lowrank' else 10 ** rng.uniform(-8, -2)
        p['noise'] = rng.choice([0.1, 0.3, 0.6, 0.9, 1.1, 2.0, 3.0]) if cls == 'lowrank_noise' else 0.0
        if rng.random() < 0.3:
            p['rmax'] = rng.randint(1, 4) if rng.random() < 0.5 else [1] + [rng.randint(1, 4) for _ in range(d - 1)] + [1]
    elif cls == 'saturate':
        d = rng.choice([2, 3, 3, 4])
        m = (d - 1) ** 2 + rng.randint(0, 2)
        big = rng.randint(1, 2)
        n = big + m
        p['N'] = [n] * d
        p['big'] = big
        p['m'] = m
        p['eps'] = 10 ** rng.uniform(-3, -0.7)
        p['margin'] = rng.choice([0.999, 0.99, 1.001, 1.01])
        p['dt'] = rng.choice(['f64', 'f64', 'c128'])
        # optionally insert singleton modes (interior or at the ends): consecutive bonds then see the same unfolding and
        # each of them truncates again, so the allowance must be split over *all* d-1 bonds
        ones_at = []
        if rng.random() < 0.5:
            k1 = 1 if d == 4 else rng.randint(1, 3)
            ones_at = sorted(rng.randint(0, d) for _ in range(k1))
        p['ones_at'] = ones_at
        dtot = d + len(ones_at)
        m = (dtot - 1) ** 2 + rng.randint(0, 2)
        n = big + m
        p['N'] = [n] * d
        p['m'] = m
        p['dcore'] = d
        shape = [n] * d
        for pos in ones_at:
            shape.insert(pos, 1)
        p['N'] = shape
    elif cls == 'tie':
        spec, nrm = rng.choice(PYTH[:-1])
        d = rng.choice([2, 2, 3])
        p['N'] = [len(spec) + rng.randint(0, 1)] * d
        p['spec'] = spec
        p['drop'] = rng.randint(1, len(spec) - 1)          # discard the `drop` smallest: energy equals threshold exactly
        p['norm'] = nrm
        p['rotate'] = rng.random() < 0.5
        p['dt'] = 'f64'
        p['src'] = rng.choice(['torch', 'numpy'])
    else:  # tall
        d = rng.choice([2, 3, 3])
        if d == 2:
            p['N'] = [rng.randint(20, 60), rng.randint(1, 2)]
        else:
            p['N'] = rng.choice([[rng.randint(30, 48), 1, rng.randint(1, 3)], [2, rng.randint(20, 30), 1], [rng.randint(40, 60), 2, 2]])
        p['R'] = [1] + [rng.randint(1, 2) for _ in range(d - 1)] + [1]
        p['eps'] = 10 ** rng.uniform(-8, -1)
        p['noise'] = rng.choice([0.0, 0.5, 2.0])
    if p['dt'] in ('f32', 'c64'):
        p['eps'] = max(p.get('eps', 1e-3), 1e-4)
    if p['ttm']:
        p['shape_arg'] = True
    # layout of the dense source when an explicit shape is passed (the constructor reshapes first)
    p['layout'] = rng.choice(['natural', 'natural', 'flat', 'matrix', 'unit_axis', 'regroup'])
    # the contract is relative: the whole array may be tiny or huge
    p['global_scale'] = rng.choice([0, 0, 0, -30, -20, -17, -12, 12, 25]) if p['dt'] in ('f64', 'c128') else 0
    # complex sources may be lazily conjugated views (conj bit set), as produced by torch.conj
    p['lazy_conj'] = p['dt'] == 'c128' and p['src'] == 'torch' and rng.random() < 0.3
    return p


def build_dense(p):
    """Returns (dense array with the shape the constructor receives, reference dense in tensor layout, known ranks or None, generic)."""
    g = gen.vgen(p['vseed'])
    dt = p['dt']
    cls = p['cls']
    N = p['N']
    d = len(N)
    known = None
    generic = True
    if cls in ('lowrank', 'lowrank_noise', 'random', 'tall'):
        if p.get('ttm'):
            cores = gen.rand_cores(N, p['R'], dt, g, p['M'])
        else:
            cores = gen.rand_cores(N, p['R'], dt, g)
        A = gen.dense_from_cores(cores)
        nrm = gen.fro(A)
        if nrm > 0:
            A = A / nrm
        if cls == 'random':
            A = gen.randn(list(A.shape), dt, g)
            A = A / max(gen.fro(A), 1e-300)
        elif p.get('noise', 0) > 0 and d > 1:
            E = gen.randn(list(A.shape), dt, g)
            E = E / max(gen.fro(E), 1e-300)
            # total noise energy = noise * (per-bond allowance) so some bonds sit near their allowance
            A = A + p['noise'] * p['eps'] / math.sqrt(max(d - 1, 1)) * E
        else:
            known = p['R']
    elif cls == 'saturate':
        n = max(N)
        ones_at = p.get('ones_at', [])
        dc = p.get('dcore', d)
        dtot = dc + len(ones_at)
        d = dc
        delta = p['eps'] / math.sqrt(dtot - 1)
        s = [1.0 + 0.3 * i for i in range(p['big'])][::-1]
        nb = math.sqrt(sum(v * v for v in s))
        # tails equal margin*delta*||A|| (solve for the norm including the tails)
        t = p['margin'] * delta
        # ||A||^2 = nb^2 + m t^2 ||A||^2  ->  ||A||^2 = nb^2 / (1 - m t^2)
        tot = nb / math.sqrt(max(1e-12, 1 - p['m'] * t * t))
        s = s + [t * tot] * p['m']
        A = superdiag(s, d, n, dt, g)
        for pos in ones_at:
            A = A.unsqueeze(pos)
        known = None
        generic = False
    elif cls == 'tie':
        A = superdiag([float(v) for v in p['spec']], d, N[0], dt, g, rotate=p['rotate'])
        known = [1] + [len(p['spec'])] * (d - 1) + [1]
        generic = False
    return A, known, generic


def call_ctor(p, A):
    N = p['N']
    kw = {'eps': p['eps']}
    if p['rmax'] is not None:
        kw['rmax'] = p['rmax']
    lay = p.get('layout', 'natural')
    if p.get('ttm'):
        if lay == 'flat':
            A = A.reshape(-1)
        elif lay == 'matrix':
            A = A.reshape(int(np.prod(p['M'])), int(np.prod(N)))
        elif lay == 'unit_axis':
            A = A.reshape(list(A.shape) + [1])
        elif lay == 'regroup':
            # same number of dimensions, other grouping of the entries (e.g. 4x6x4x6 requested as [(8,8),(3,3)])
            sh = list(A.shape)
            A = A.reshape(sh[1:] + sh[:1])
        src = A.numpy() if p['src'] == 'numpy' else A
        return TT(src, [(m, n) for m, n in zip(p['M'], N)], **kw)
    if p['shape_arg']:
        flat = A.reshape(-1) if lay in ('natural', 'flat') else A.reshape(list(A.shape) + [1]) if lay == 'unit_axis' else A.reshape(list(A.shape)[1:] + list(A.shape)[:1]) if lay == 'regroup' else A.reshape(N[0], -1)
        src = flat.numpy() if p['src'] == 'numpy' else flat
        return TT(src, shape=list(N), **kw)
    src = A.numpy() if p['src'] == 'numpy' else A
    return TT(src, **kw)


def eps_of(p):
    if p['cls'] == 'tie':
        spec = p['spec']
        tail = math.sqrt(sum(v * v for v in spec[len(spec) - p['drop']:]))
        nrm = math.sqrt(sum(v * v for v in spec))
        d = len(p['N'])
        # per-bond allowance eps/sqrt(d-1)*||A|| equals the tail energy exactly (up to the last bit)
        return tail / nrm * math.sqrt(d - 1)
    return p['eps']


LAST = {'ratio': None}


def contract(p, x, A, known):
    """Returns None or (field, message, ratio)."""
    N = p['N']
    d = len(N)
    dt = p['dt']
    if not isinstance(x, TT):
        return 'type', 'constructor returned %s' % type(x).__name__, None
    from sim.history import check_wf
    r = check_wf(x, do_full=True)
    if r is not None:
        return 'wf-' + r[0], r[1], None
    if gen.ints(x.N) != list(N) or bool(x.is_ttm) != bool(p.get('ttm')) or (p.get('ttm') and gen.ints(x.M) != list(p['M'])):
        return 'shape', 'N=%s M=%s is_ttm=%s, requested N=%s M=%s' % (x.N, x.M if x.is_ttm else None, x.is_ttm, N, p.get('M')), None
    if x.cores[0].dtype != gen.DTYPES[dt]:
        return 'dtype', 'dtype %s, source was %s' % (x.cores[0].dtype, dt), None
    R = gen.ints(x.R)
    rmax = p['rmax']
    rm = None
    if rmax is not None:
        rm = rmax if isinstance(rmax, list) else [1] + [rmax] * (d - 1) + [1]
        for k in range(d + 1):
            if R[k] > rm[k]:
                return 'rmax', 'R=%s exceeds rmax=%s' % (R, rm), None
    sizes = [n * (p['M'][k] if p.get('ttm') else 1) for k, n in enumerate(N)]
    for k in range(1, d):
        lim = min(int(np.prod(sizes[:k])), int(np.prod(sizes[k:])))
        if R[k] > lim:
            return 'rank_unfold', 'R[%d]=%d exceeds the size bound %d of the unfolding' % (k, R[k], lim), None
    e = eps_of(p)
    if known is not None and e >= 1e-9 * math.sqrt(d) and dt in ('f64', 'c128'):
        for k in range(1, d):
            if R[k] > known[k]:
                return 'rank_exact', 'R=%s exceeds the exact unfolding ranks %s' % (R, known), None
    binding = rm is not None and any(R[k] == rm[k] for k in range(1, d))
    full = gen.dense(x)
    err = gen.fro(full - A.reshape(full.shape))
    nA = gen.fro(A)
    u = gen.UNIT_ROUNDOFF[dt]
    ratio = None
    LAST['ratio'] = None
    if not binding and d > 1:
        bound = e * nA * (1 + 1e-9) + 50 * u * nA * math.sqrt(d)
        ratio = err / (e * nA) if e * nA > 0 else 0.0
        LAST['ratio'] = ratio
        if not err <= bound:
            return 'error', 'error %.6g > eps*||A|| = %.6g (ratio %.4f), R=%s' % (err, e * nA, ratio, R), ratio
    if d == 1 and not err <= 50 * u * nA:
        return 'error', 'order-1 input not reproduced: error %.3g' % err, None
    return None


def exec_case(p, res, plans=None, rng=None):
    """Runs the fault-free decomposition and the fault plans; returns list of violations."""
    stats = res['stats']
    out = []
    A, known, generic = build_dense(p)
    if p.get('global_scale'):
        A = A * (10.0 ** p['global_scale'])
    if p.get('lazy_conj'):
        A = torch.conj(A.resolve_conj().conj().resolve_conj())      # same values, conj bit set
        core.bump(stats, 'probe.lazy_conj_source')
    p2 = dict(p)
    p2['eps'] = eps_of(p)
    fam = '%s|d%d|%s|%s|%s|%s' % (p['cls'], len(p['N']), 'M' if p.get('ttm') else 'T', p['dt'], p['src'],
                                  'rmaxlist' if isinstance(p['rmax'], list) else 'rmax' if p['rmax'] else 'norm')
    if p.get('ttm') or p['shape_arg']:
        fam += '|' + p.get('layout', 'natural')

    def call():
        return call_ctor(p2, A)

    x0, exc, f0 = svdfault.run_with_plan(call, {})
    core.bump(stats, 'decompositions')
    n = f0.n_primary
    tall = sum(1 for sh in f0.shapes if len(sh) == 2 and sh[1] >= 10 * sh[0] and sh[0] * 10 <= sh[1])
    core.bump(stats, 'probe.tall_branch_calls', tall)
    core.bump(stats, 'svd.primary_calls_fault_free', n)
    res['keys'].append(fam + '|free')
    if exc is not None:
        out.append(core.violation(PROP, 'CONTRACT', 'ttsvd', 'raised:' + type(exc).__name__, 'fault-free decomposition raised %s: %s' % (type(exc).__name__, str(exc)[:100]), {'case': p, 'plan': None}))
        return out, 0
    c = contract(p2, x0, A, known)
    if c is not None:
        out.append(core.violation(PROP, 'CONTRACT', 'ttsvd', c[0], 'fault-free: ' + c[1], {'case': p, 'plan': None}))
    elif c is None:
        pass
    try:
        full0 = gen.dense(x0)
    except Exception:
        full0 = None
    if c is None and LAST['ratio'] is not None and LAST['ratio'] > 0.9:
        res['near'].append((round(LAST['ratio'], 4), fam))
        core.bump(stats, 'probe.error_above_0.9_eps')
    if plans is None:
        plans = svdfault.enumerate_plans(rng, n) if rng is not None else []
    for plan in plans:
        xf, excf, f = svdfault.run_with_plan(call, plan)
        core.bump(stats, 'decompositions')
        svdfault.branch_stats(f, stats)
        fired = f.fired_primary
        if fired == 0:
            core.bump(stats, 'probe.svd_seam_unreached_or_plan_out_of_range')
            continue
        core.bump(stats, 'plans.' + plan.get('kind', '?'))
        res['keys'].append(fam + '|' + plan.get('kind', '?') + ('|tall' if tall else ''))
        desc = {'case': p, 'plan': plan}
        if plan.get('Q') and f.fired_secondary > 0:
            if excf is None:
                out.append(core.violation(PROP, 'DOUBLE-FAULT', 'ttsvd', 'returned', 'both SVD backends failed and the constructor still returned an object', desc))
            continue
        if excf is not None:
            out.append(core.violation(PROP, 'FAULT-RECOVERY', 'ttsvd', 'raised:' + type(excf).__name__, 'primary SVD failed at call(s) %s and the numpy fallback path raised %s: %s' % (
                'all' if plan.get('all') else plan['P'], type(excf).__name__, str(excf)[:100]), desc))
            continue
        cf = contract(p2, xf, A, known)
        if cf is not None:
            if c is None or cf[0] != c[0]:
                out.append(core.violation(PROP, 'FAULT-CONTRACT', 'ttsvd', cf[0], 'under plan %s: %s' % (plan, cf[1]), desc))
            continue
        if generic and full0 is not None and c is None:
            if gen.ints(xf.R) != gen.ints(x0.R):
                # a rank decision at the threshold went the other way (singular values of the two backends differ in the
                # last bits): both results satisfy the contract, checked above, and may differ by up to 2*eps*||A||
                core.bump(stats, 'probe.agree_skipped_rank_decision_differs')
                continue
            verdict, dd, tol = svdfault.agree_conditioned(gen.dense(xf), full0, gen.fro(A), p['dt'], A.reshape(full0.shape), p['N'], p['M'] if p.get('ttm') else None,
                                                          gen.ints(x0.R), gen.fro(full0 - A.reshape(full0.shape)))
            if verdict == 'ill-conditioned':
                core.bump(stats, 'probe.agree_skipped_ill_conditioned_truncation')
            if verdict == 'differs':
                out.append(core.violation(PROP, 'FAULT-AGREE', 'ttsvd', 'value', 'result under plan %s differs from the fault-free result by %.3g (tol %.3g)' % (plan, dd, tol), desc))
    return out, n


def run_one(rng, tier, res, opts):
    p = gen_case(rng)
    log = core.EventLog()
    viol, n = exec_case(p, res, rng=rng)
    for v in viol:
        res['viol'].append(v)
        log.add('VIOL', v['oracle'], v['field'])
    core.bump(res['stats'], 'runs')
    log.add('case', core.digest_of(p), n, sorted(res['stats'].items()))
    res['digest'] = log.digest()
    if res['i'] < 3:
        res['sample'] = {'run': res['i'], 'case': p, 'primary_svd_calls': n}


def replay(desc, opts):
    res = core.new_result(-1)
    plans = [desc['plan']] if desc.get('plan') else []
    viol, n = exec_case(desc['case'], res, plans=plans)
    return viol


def shrink_candidates(desc):
    p = desc['case']
    plan = desc.get('plan')
    if plan and len(plan.get('P', [])) > 1:
        for k in range(len(plan['P'])):
            yield {'case': p, 'plan': dict(plan, P=plan['P'][:k] + plan['P'][k + 1:])}
    if p['cls'] in ('lowrank', 'lowrank_noise', 'random', 'tall') and len(p['N']) > 2 and not plan:
        d = len(p['N'])
        q = dict(p, N=p['N'][:-1], R=p['R'][:-2] + [1])
        if p.get('ttm'):
            q['M'] = p['M'][:-1]
        if isinstance(p['rmax'], list):
            q['rmax'] = p['rmax'][:-2] + [1]
        yield {'case': q, 'plan': plan}
    if p['dt'] != 'f64' and p['cls'] != 'saturate':
        yield {'case': dict(p, dt='f64'), 'plan': plan}
    if p['src'] != 'torch':
        yield {'case': dict(p, src='torch'), 'plan': plan}
    if p.get('layout', 'natural') != 'natural':
        yield {'case': dict(p, layout='natural'), 'plan': plan}
    if p['rmax'] is not None:
        yield {'case': dict(p, rmax=None), 'plan': plan}
    if p.get('noise'):
        yield {'case': dict(p, noise=0.0), 'plan': plan}
