"""
C17 - the compiled backend obeys the same contracts as the Python one.
Differential simulation: the C++ extension is really built from /repo/cpp,
both backends are driven from the same inputs and the same PRNG stream
(exploration).

NOTE: torchtt must be imported *after* the extension module is importable, so
this module imports torchtt lazily.
"""
import os
import sys
import math

from sim import core

PROP = 'C17'
LEVEL = 'exploration'
EVAL_KEY = 'pairs'
C = 10.0     # amen_solve residual
CM = 5.0     # fast_matvec error (as C11)
TIERS = {
    'quick': {'runs': 3000, 'opts': {}, 'chunk': 20},
    'thorough': {'runs': 100000, 'opts': {}, 'chunk': 60, 'time_cap': 1500},
}
RULE = ('per run one case of the C11 fast_matvec generator or the C12 generator (GMRES local solver; preconditioner None/c/r; with '
        'and without initial guess), executed twice from the same global-PRNG seed: use_cpp=True (extension built from /repo/cpp) and '
        'use_cpp=False; evaluations = backend pairs; distinct by (routine, class, order, eps decade, preconditioner, max_full, guess)')
ASSUMPTIONS = ['build-system deviations only: -std=c++20 instead of c++17, -llapack -lblas as link arguments, OPENBLAS_NUM_THREADS=1; '
               'no source line of cpp/ is altered', 'oracle: each backend within C=10 of its eps; mutual difference within 2C',
               'single-threaded BLAS']
REAL = ['cpp/cpp_ext.cpp compiled from the working tree (amen_solve.h, dmrg_mv.h, ortho.h, gmres.h, ...)', 'torchtt Python backend', 'torch']
STUB = ['build driver (g++ invoked by the check instead of setup.py)']

_STATE = {'bdir': None}


def prepare(opts):
    from sim import cppbuild
    bdir, err = cppbuild.build()
    if err:
        return 'cpp build failed: ' + err
    _STATE['bdir'] = bdir
    os.environ['VERIF_CPP_DIR'] = bdir
    return None


def _ensure():
    bdir = _STATE['bdir'] or os.environ.get('VERIF_CPP_DIR')
    if bdir is None:
        from sim import cppbuild
        bdir, err = cppbuild.build()
        if err:
            raise RuntimeError('cpp build failed: ' + err)
        _STATE['bdir'] = bdir
    if 'torchtt' in sys.modules and 'torchttcpp' not in sys.modules:
        raise RuntimeError('torchtt was imported before the C++ extension was available')
    from sim import cppbuild
    cppbuild.load(bdir)
    import torchtt
    import torchtt.solvers
    import torchtt._dmrg
    if not (torchtt.solvers._flag_use_cpp and torchtt._dmrg._flag_use_cpp):
        raise RuntimeError('torchtt does not see the C++ extension')


def gen_case(rng):
    from sim.props import c11, c12
    if rng.random() < 0.5:
        p = c11.gen_case(rng)
        while p['routine'] != 'fast_matvec' or p['dt'] != 'f64':
            p = c11.gen_case(rng)
        p['plan'] = None
        p['kind'] = 'matvec'
        if p['guess'] in ('exact', 'perturbed') and len(p['N']) == 1:
            p['guess'] = 'rank1'
    else:
        p = c12.gen_case(rng)
        p['ls'] = 1
        p['band'] = -1
        p['plan'] = None
        p['kind'] = 'solve'
    return p


def family(p):
    if p['kind'] == 'matvec':
        return 'matvec|d%d|%s|e%d|%s' % (len(p['N']), p['vals'], round(-math.log10(p['eps'])), p['guess'])
    return 'solve|%s|d%d|e%d|%s|mf%d|%s' % (p['cls'], len(p['N']), round(-math.log10(p['eps'])), p['prec'], p['max_full'], p['x0'])


def exec_case(p, res):
    _ensure()
    import torch
    import torchtt
    from sim import gen, seams
    from sim.history import take_snap, check_unchanged, check_wf
    from sim.props import c11, c12
    stats = res['stats']
    out = []
    fam = family(p)
    res['keys'].append(fam)
    desc = {'case': p}
    core.bump(stats, 'pairs')
    if p['kind'] == 'matvec':
        A, B, guess, exact, outN, outM = c11.build(p)
        objs = [(A, 'A'), (B, 'x')] + ([(guess, 'initial guess')] if guess is not None else [])
        snaps = [(o, take_snap(o), w) for o, w in objs]
        ys = {}
        if p.get('prelude') is not None:
            # history dimension (see c11): the compiled backend has already multiplied other operands of the same structure
            try:
                pp = dict(p, vseed=p['prelude'], plan=None, prelude=None)
                A2, B2, g2 = c11.build(pp)[:3]
                seams.seed_global(p['tseed'] ^ 0x5a5a5a)
                A2.fast_matvec(B2, eps=p['eps'], initial=g2, use_cpp=True)
            except Exception:
                core.bump(stats, 'history.prelude_raised')
            core.bump(stats, 'probe.call_with_history')
        for backend in ('cpp', 'py'):
            kw = {}
            if p.get('exact_nswp') and len(p['N']) > 1:
                # exact sweep budget (see c11): each backend gets exactly the number of sweeps it reports using
                seams.seed_global(p['tseed'])
                try:
                    ns = c11.sweeps_used(p, A, B, guess, use_cpp=(backend == 'cpp'))
                    if ns and ns >= 1:
                        kw['nswp'] = int(ns)
                        core.bump(stats, 'probe.exact_sweep_budget_' + backend)
                except Exception:
                    pass
            seams.seed_global(p['tseed'])
            try:
                ys[backend] = A.fast_matvec(B, eps=p['eps'], initial=guess, use_cpp=(backend == 'cpp'), **kw)
            except Exception as e:
                out.append(core.violation(PROP, 'RAISED', 'fast_matvec', backend + ':' + type(e).__name__, '%s backend raised %s: %s' % (backend, type(e).__name__, str(e)[:120]), desc))
                ys[backend] = None
            for o, snap, w in snaps:
                r = check_unchanged(o, snap)
                if r is not None:
                    out.append(core.violation(PROP, 'OPERAND', 'fast_matvec', backend + ':' + r[0], '%s changed by the %s backend: %s' % (w, backend, r[1]), desc))
                    snaps = [(o2, take_snap(o2), w2) for o2, _, w2 in snaps]
        ne = gen.fro(exact)
        rep = 1.0
        for c_ in list(A.cores) + list(B.cores):
            rep *= gen.fro(c_)
        ratios = {}
        dens = {}
        for backend, y in ys.items():
            if y is None:
                continue
            r = check_wf(y, do_full=True)
            if r is not None or y.is_ttm or gen.ints(y.N) != outN:
                out.append(core.violation(PROP, 'RESULT', 'fast_matvec', backend + ':shape', '%s backend: malformed result or wrong shape %s (expected %s): %s' % (backend, y.N, outN, r), desc))
                continue
            dens[backend] = gen.dense(y)
            err = gen.fro(dens[backend] - exact.reshape(dens[backend].shape))
            ratios[backend] = err / (p['eps'] * ne) if ne > 0 else 0.0
            if not err <= CM * p['eps'] * ne + 1000 * gen.UNIT_ROUNDOFF['f64'] * max(ne, rep):
                out.append(core.violation(PROP, 'ACCURACY', 'fast_matvec', backend + ':error', '%s backend: relative error %.3g = %.3g * eps (eps=%.0e)' % (backend, err / max(ne, 1e-300), ratios[backend], p['eps']), desc))
        if len(dens) == 2:
            diff = gen.fro(dens['cpp'] - dens['py'])
            ratios['mutual'] = diff / (p['eps'] * ne) if ne > 0 else 0.0
            if not diff <= 2 * CM * p['eps'] * ne + 2000 * gen.UNIT_ROUNDOFF['f64'] * max(ne, rep):
                out.append(core.violation(PROP, 'AGREE', 'fast_matvec', 'mutual', 'backends differ by %.3g * eps' % ratios['mutual'], desc))
        return out, ratios
    # solve
    A, b, x0 = c12.build(p)
    objs = [(A, 'A'), (b, 'b')] + ([(x0, 'x0')] if x0 is not None else [])
    snaps = [(o, take_snap(o), w) for o, w in objs]
    xs = {}
    if p.get('prelude') is not None:
        try:
            pp = dict(p, vseed=p['prelude'], plan=None, prelude=None)
            A2, b2, x02 = c12.build(pp)
            seams.seed_global(p['tseed'] ^ 0x5a5a5a)
            c12.solve(pp, A2, b2, x02, use_cpp=True)
        except Exception:
            core.bump(stats, 'history.prelude_raised')
        core.bump(stats, 'probe.call_with_history')
    for backend in ('cpp', 'py'):
        seams.seed_global(p['tseed'])
        try:
            xs[backend] = c12.solve(p, A, b, x0, use_cpp=(backend == 'cpp'))
        except Exception as e:
            out.append(core.violation(PROP, 'RAISED', 'amen_solve', backend + ':' + type(e).__name__, '%s backend raised %s: %s' % (backend, type(e).__name__, str(e)[:120]), desc))
            xs[backend] = None
        for o, snap, w in snaps:
            r = check_unchanged(o, snap)
            if r is not None:
                out.append(core.violation(PROP, 'OPERAND', 'amen_solve', backend + ':' + r[0], '%s changed by the %s backend: %s' % (w, backend, r[1]), desc))
                snaps = [(o2, take_snap(o2), w2) for o2, _, w2 in snaps]
    ratios = {}
    dens = {}
    Am = None
    bn = gen.fro(gen.dense(b))
    for backend, x in xs.items():
        if x is None:
            continue
        r = check_wf(x, do_full=True)
        if r is not None or x.is_ttm or gen.ints(x.N) != gen.ints(b.N):
            out.append(core.violation(PROP, 'RESULT', 'amen_solve', backend + ':shape', '%s backend: malformed result or wrong shape: %s %s' % (backend, x.N, r), desc))
            continue
        rn, bn, Am = c12.residual(A, x, b)
        dens[backend] = gen.dense(x).reshape(-1)
        ratios[backend] = rn / (p['eps'] * bn)
        if not rn <= C * p['eps'] * bn:
            out.append(core.violation(PROP, 'RESIDUAL', 'amen_solve', backend + ':residual', '%s backend: ||Ax-b||/||b|| = %.3g = %.3g * eps (eps=%.0e)' % (backend, rn / bn, ratios[backend], p['eps']), desc))
    if len(dens) == 2 and Am is not None:
        diff = gen.fro(Am @ (dens['cpp'] - dens['py']))
        ratios['mutual'] = diff / (p['eps'] * bn)
        if not diff <= 2 * C * p['eps'] * bn:
            out.append(core.violation(PROP, 'AGREE', 'amen_solve', 'mutual', 'backends differ by %.3g * eps in the residual norm' % ratios['mutual'], desc))
    return out, ratios


def run_one(rng, tier, res, opts):
    _ensure()
    p = gen_case(rng)
    log = core.EventLog()
    viol, ratios = exec_case(p, res)
    for v in viol:
        res['viol'].append(v)
        log.add('VIOL', v['oracle'], v['field'])
    core.bump(res['stats'], 'runs')
    core.bump(res['stats'], 'kind.' + p['kind'])
    if ratios:
        m = max(ratios.values())
        if m > 1.0 and not viol:
            res['near'].append((round(m, 3), family(p)))
    log.add('case', core.digest_of(p), sorted((k, round(v, 9)) for k, v in (ratios or {}).items()))
    res['digest'] = log.digest()
    if res['i'] < 3:
        res['sample'] = {'run': res['i'], 'case': p, 'ratios_over_eps': ratios}


def crash_violation(rng, tier, opts, signum):
    _ensure()
    p = gen_case(rng)
    return core.violation(PROP, 'CRASH', 'fast_matvec' if p['kind'] == 'matvec' else 'amen_solve', 'signal%d' % signum,
                          'the interpreter was killed by signal %d while running this case (compiled backend)' % signum, {'case': p})


def replay(desc, opts):
    _ensure()
    res = core.new_result(-1)
    viol, ratios = exec_case(desc['case'], res)
    return viol


def shrink_candidates(desc):
    _ensure()
    p = desc['case']
    if p['kind'] == 'matvec':
        from sim.props import c11
        for c in c11.shrink_candidates(desc):
            c['case']['kind'] = 'matvec'
            yield c
    else:
        from sim.props import c12
        for c in c12.shrink_candidates(desc):
            if c['case']['ls'] == 1 and c['case']['band'] == -1:
                c['case']['kind'] = 'solve'
                yield c
