"""
C14 - cross approximation recovers low-rank data and samples only valid
indices.  The user function is a simulated peer that validates and records
every request before answering from the exact tensor (exploration).
"""
import math

import numpy as np
import torch

import torchtt
from torchtt import TT

from sim import core, gen, seams, svdfault
from sim.history import take_snap, check_unchanged, check_wf

PROP = 'C14'
LEVEL = 'exploration'
EVAL_KEY = 'runs'
C = 10.0
TIERS = {
    'quick': {'runs': 12000, 'opts': {}, 'chunk': 50},
    'thorough': {'runs': 400000, 'opts': {}, 'chunk': 100, 'time_cap': 1500},
}
RULE = ('per run: target in {exact TT rank 1..4 with random cores, 1/(2+sum(i_k+1)), exp(-0.1 sum i_k)+0.5}; order 2..5; mode sizes '
        '2..20, non-uniform, including sizes smaller than rank+kick; eps=10^-k, k in 3..10; API in {dmrg_cross, dmrg_cross with start '
        'tensor, function_interpolate univariate, multivariate (+start tensor)}; the user function is the simulator\'s peer: every '
        'request is validated (shape, dtype, index range / membership of the values in the argument tensors) and recorded; global torch '
        'PRNG seeded per run; primary SVD failures on 25% of runs (at seeded call indices, or at seeded fractions of the measured number of SVD calls so that late calls fail too); 10-12% of runs are preceded in the same process by the same routine on other data of the same structure (history independence); distinct by (api, target, order, eps decade, small-mode flag, '
        'start tensor, fault kind)')
ASSUMPTIONS = ['single-threaded BLAS', 'oracle constant C=10 on the relative error; targets have TT ranks <= 4 or fast-decaying ranks',
               'the peer answers from the exact dense tensor; the clamp that keeps it answering after an invalid request is not part of the oracle']
REAL = ['torchtt.interpolate.dmrg_cross, function_interpolate, _maxvol (working tree)', 'torch']
STUB = ['the user function (simulated peer)', 'failure of torch.linalg.svd at planned call indices']


def gen_case(rng):
    api = rng.choices(['dmrg_cross', 'dmrg_cross_start', 'fi_uni', 'fi_multi', 'fi_multi_start', 'fi_multi_gen'], [4, 2, 3, 2, 1, 2])[0]
    d = rng.choice([2, 2, 3, 3, 4, 5])
    small = rng.random() < 0.5
    N = [rng.randint(2, 5) if (small and rng.random() < 0.6) else rng.randint(2, 20) for _ in range(d)]
    while int(np.prod(N)) > 150000:
        k = N.index(max(N))
        N[k] = max(2, N[k] - 2)
    p = {'api': api, 'N': N, 'vseed': rng.getrandbits(31), 'tseed': rng.getrandbits(31)}
    p['target'] = rng.choice(['tt', 'tt', 'hilbert', 'exp'])
    if api == 'fi_uni':
        p['target'] = rng.choice(['hilbert', 'exp', 'square'])
    if api.startswith('fi_multi'):
        p['target'] = rng.choice(['hilbert', 'exp'])
    if api == 'fi_multi_gen':
        p['target'] = 'hilbert'
        if rng.random() < 0.5:
            p['N'] = N = [rng.randint(2, 8)] * d        # uniform sizes: an index mix-up cannot show up as an IndexError here
    p['R'] = [1] + [rng.randint(1, 4) for _ in range(d - 1)] + [1]
    if p['target'] == 'square':
        p['R'] = [1] + [rng.randint(1, 2) for _ in range(d - 1)] + [1]
    p['eps'] = 10.0 ** (-rng.randint(3, 10))
    p['start_rank'] = rng.choice([1, 2, 3])
    r = rng.random()
    if r < 0.2:
        pts = sorted(set(rng.randint(0, 40) for _ in range(rng.randint(1, 4))))
        p['plan'] = {'P': pts, 'Q': [], 'all': False, 'kind': 'subset'}
        if rng.random() < 0.5:
            p['plan'] = {'P': [], 'frac': sorted(rng.choice([0.0, 0.05, 0.3, 0.5, 0.8, 0.95, 0.999]) for _ in range(rng.randint(1, 3))), 'Q': [], 'all': False, 'kind': 'fraction'}
    elif r < 0.25:
        p['plan'] = {'P': [], 'Q': [], 'all': True, 'kind': 'all'}
    else:
        p['plan'] = None
    # history dimension: the checked call is preceded, in the same process, by the same routine on other data of the same
    # structure (values from the seed below)
    p['prelude'] = rng.getrandbits(31) if rng.random() < 0.12 else None
    return p


class Peer:
    """The simulated user function."""

    def __init__(self, mode, N, exact, arg_dense=None, vectors=None, fn=None):
        self.mode = mode
        self.N = list(N)
        self.d = len(N)
        self.exact = exact
        self.arg_sorted = None
        if arg_dense is not None:
            self.arg_sorted = torch.sort(arg_dense.reshape(-1))[0]
            self.arg_scale = float(arg_dense.abs().max()) + 1e-300
        self.vectors = vectors
        self.fn = fn
        self.calls = 0
        self.rows = 0
        self.bad = None     # first invalid request (field, message)
        self.log = []

    def _flag(self, field, msg):
        if self.bad is None:
            self.bad = (field, 'request #%d: %s' % (self.calls, msg))

    def __call__(self, arg):
        self.calls += 1
        if self.mode == 'index':
            return self.on_index(arg)
        if self.mode == 'values':
            return self.on_values(arg)
        if self.mode == 'rows_gen':
            return self.on_rows_gen(arg)
        return self.on_rows(arg)

    def on_rows_gen(self, ev):
        if not torch.is_tensor(ev) or ev.dim() != 2 or ev.shape[1] != self.d:
            self._flag('shape', 'argument has shape %s, expected M x %d' % (list(getattr(ev, 'shape', [])), self.d))
            return torch.zeros(ev.shape[0], dtype=torch.float64)
        self.rows += ev.shape[0]
        lin = torch.round(ev[:, 0]).to(torch.int64)
        total = int(np.prod(self.N))
        worst = float((ev[:, 0] - lin.to(torch.float64)).abs().max()) if ev.shape[0] else 0.0
        if ev.shape[0] and (int(lin.min()) < 0 or int(lin.max()) >= total):
            self._flag('membership', 'first column is not an entry of the first argument tensor')
        lin = torch.clamp(lin, 0, total - 1)
        for j in range(1, self.d):
            ref = self.args_dense[j].reshape(-1)[lin]
            scale = float(self.args_dense[j].abs().max()) + 1e-300
            dj = float((ev[:, j] - ref).abs().max()) / scale if ev.shape[0] else 0.0
            worst = max(worst, dj)
        self.log.append((self.calls, int(ev.shape[0]), worst))
        if worst > 1e-9:
            self._flag('common_index', 'a row is not (x_1[i],...,x_d[i]) at one common multi-index i (mismatch %.3g)' % worst)
        return self.fn(ev)

    def on_index(self, I):
        if not torch.is_tensor(I):
            self._flag('type', 'index argument is %s' % type(I).__name__)
            I = torch.as_tensor(I)
        if I.dim() != 2 or I.shape[1] != self.d:
            self._flag('shape', 'index matrix has shape %s, expected M x %d' % (list(I.shape), self.d))
            return torch.zeros(I.shape[0] if I.dim() > 0 else 1, dtype=torch.float64)
        if I.dtype.is_floating_point or I.dtype.is_complex or I.dtype == torch.bool:
            self._flag('dtype', 'index matrix has dtype %s' % I.dtype)
            I = I.to(torch.int64)
        self.rows += I.shape[0]
        lo = I.min(0)[0] if I.shape[0] else torch.zeros(self.d, dtype=torch.int64)
        hi = I.max(0)[0] if I.shape[0] else torch.zeros(self.d, dtype=torch.int64)
        self.log.append((self.calls, int(I.shape[0]), [int(v) for v in lo], [int(v) for v in hi]))
        for k in range(self.d):
            if I.shape[0] and (int(lo[k]) < 0 or int(hi[k]) >= self.N[k]):
                self._flag('range', 'column %d holds indices in [%d, %d], valid range is [0, %d)' % (k, int(lo[k]), int(hi[k]), self.N[k]))
        J = [torch.clamp(I[:, k].to(torch.int64), 0, self.N[k] - 1) for k in range(self.d)]
        return self.exact[tuple(J)]

    def on_values(self, v):
        if not torch.is_tensor(v):
            self._flag('type', 'argument is %s' % type(v).__name__)
            v = torch.as_tensor(v)
        self.rows += int(v.numel())
        flat = v.reshape(-1).to(torch.float64)
        pos = torch.searchsorted(self.arg_sorted, flat)
        pos = torch.clamp(pos, 0, self.arg_sorted.numel() - 1)
        near = torch.minimum((self.arg_sorted[pos] - flat).abs(), (self.arg_sorted[torch.clamp(pos - 1, 0)] - flat).abs())
        worst = float(near.max()) if near.numel() else 0.0
        self.log.append((self.calls, int(flat.numel()), worst))
        if worst > 1e-9 * self.arg_scale:
            self._flag('membership', 'a value passed to the function is %.3g away from every entry of the argument tensor' % worst)
        return self.fn(v)

    def on_rows(self, ev):
        if not torch.is_tensor(ev) or ev.dim() != 2 or ev.shape[1] != self.d:
            self._flag('shape', 'argument has shape %s, expected M x %d' % (list(getattr(ev, 'shape', [])), self.d))
            return torch.zeros(ev.shape[0], dtype=torch.float64)
        self.rows += ev.shape[0]
        worst = 0.0
        for j in range(self.d):
            vec = self.vectors[j]
            dist = (ev[:, j].to(torch.float64)[:, None] - vec[None, :]).abs().min(1)[0]
            if dist.numel():
                worst = max(worst, float(dist.max()))
        self.log.append((self.calls, int(ev.shape[0]), worst))
        if worst > 1e-9:
            self._flag('membership', 'a row is not (x_1[i],...,x_d[i]) for any multi-index i (distance %.3g)' % worst)
        return self.fn(ev)


def build(p):
    g = gen.vgen(p['vseed'])
    N = p['N']
    d = len(N)
    api = p['api']
    idx = torch.meshgrid(*[torch.arange(n, dtype=torch.float64) for n in N], indexing='ij')
    ssum = sum(idx)
    start = None
    if api in ('dmrg_cross_start', 'fi_multi_start'):
        r = p['start_rank']
        Rs = [1] + [r] * (d - 1) + [1]
        if p['vseed'] % 2 == 0:
            Rs = [1] + [1 + (p['vseed'] >> (3 * k)) % 4 for k in range(d - 1)] + [1]     # non-uniform warm start
        start = TT(gen.rand_cores(N, Rs, 'f64', g))
        sk = p['vseed'] % 7
        if sk == 0:
            start = torchtt.zeros(N)                                   # an all-zero start
        elif sk == 1:
            start = start + 0.0 * TT(gen.rand_cores(N, [1] + [2] * (d - 1) + [1], 'f64', g))   # zero-padded ranks (as TT addition produces)
    if api in ('dmrg_cross', 'dmrg_cross_start'):
        if p['target'] == 'tt':
            exact = gen.dense_from_cores(gen.rand_cores(N, p['R'], 'f64', g))
        elif p['target'] == 'hilbert':
            exact = 1.0 / (2.0 + ssum + d)
        else:
            exact = torch.exp(-0.1 * ssum) + 0.5
        peer = Peer('index', N, exact)
        return peer, exact, None, start
    if api == 'fi_uni':
        if p['target'] == 'square':
            x = TT(gen.rand_cores(N, p['R'], 'f64', g))
            fn = lambda t: t * t + 1.0
        else:
            xs = torchtt.meshgrid([torch.arange(n, dtype=torch.float64) for n in N])
            x = xs[0]
            for k in range(1, d):
                x = x + xs[k]
            fn = (lambda t: 1.0 / (2.0 + t + d)) if p['target'] == 'hilbert' else (lambda t: torch.exp(-0.1 * t) + 0.5)
        xd = gen.dense(x)
        exact = fn(xd)
        peer = Peer('values', N, exact, arg_dense=xd, fn=fn)
        return peer, exact, x, start
    if api == 'fi_multi_gen':
        # general argument tensors (not coordinate tensors): x_0 is the linear index (so every row tells which
        # multi-index it claims to come from), x_1..x_{d-1} are random low-rank TTs
        strides = [int(np.prod(N[k + 1:])) for k in range(d)]
        coords = torchtt.meshgrid([torch.arange(n, dtype=torch.float64) * st for n, st in zip(N, strides)])
        lin = coords[0]
        for k in range(1, d):
            lin = lin + coords[k]
        xs = [lin] + [TT(gen.rand_cores(N, [1] + [rng_r] * (d - 1) + [1], 'f64', g)) for rng_r in ([1, 2] * d)[:d - 1]]
        dens = [gen.dense(xx) for xx in xs]
        total = float(np.prod(N))
        fn = lambda ev: 1.0 / (2.0 + ev[:, 0] / total) + 0.05 * torch.sum(ev[:, 1:], 1)
        exact = 1.0 / (2.0 + dens[0] / total)
        for dd in dens[1:]:
            exact = exact + 0.05 * dd
        peer = Peer('rows_gen', N, exact, fn=fn)
        peer.args_dense = dens
        return peer, exact, xs, start
    # multivariate: meshgrid of distinct vectors
    vectors = [torch.arange(n, dtype=torch.float64) * (0.5 + 0.25 * k) + 0.1 * k for k, n in enumerate(N)]
    xs = torchtt.meshgrid(vectors)
    if p['target'] == 'hilbert':
        fn = lambda ev: 1.0 / (2.0 + torch.sum(ev, 1))
    else:
        fn = lambda ev: torch.exp(-0.1 * torch.sum(ev, 1)) + 0.5
    grids = torch.meshgrid(*vectors, indexing='ij')
    exact = fn(torch.stack([gq.reshape(-1) for gq in grids], 1)).reshape(N)
    peer = Peer('rows', N, exact, vectors=vectors, fn=fn)
    return peer, exact, xs, start


def family(p):
    small = any(n <= 5 for n in p['N'])
    return '%s|%s|d%d|e%d|%s|%s' % (p['api'], p['target'], len(p['N']), round(-math.log10(p['eps'])), 'small' if small else 'large',
                                    p['plan']['kind'] if p['plan'] else 'nofault')


def call(p, peer, x, start):
    api = p['api']
    if api == 'dmrg_cross':
        return torchtt.interpolate.dmrg_cross(peer, list(p['N']), eps=p['eps'])
    if api == 'dmrg_cross_start':
        return torchtt.interpolate.dmrg_cross(peer, list(p['N']), eps=p['eps'], x_start=start)
    if api == 'fi_uni':
        return torchtt.interpolate.function_interpolate(peer, x, eps=p['eps'])
    if api in ('fi_multi', 'fi_multi_gen'):
        return torchtt.interpolate.function_interpolate(peer, x, eps=p['eps'])
    return torchtt.interpolate.function_interpolate(peer, x, eps=p['eps'], start_tens=start)


def exec_case(p, res):
    stats = res['stats']
    out = []
    peer, exact, x, start = build(p)
    snaps = []
    if start is not None:
        snaps.append((start, take_snap(start), 'start tensor'))
    if isinstance(x, TT):
        snaps.append((x, take_snap(x), 'argument tensor'))
    elif isinstance(x, list):
        for k, xx in enumerate(x):
            snaps.append((xx, take_snap(xx), 'argument tensor %d' % k))
    fam = family(p)
    res['keys'].append(fam)
    desc = {'case': p}
    api = p['api']
    if p['plan'] and p['plan'].get('frac') is not None:
        def _count():
            seams.seed_global(p['tseed'])
            peer0, _, x0_, start0 = build(p)       # a separate peer: the counting run must not touch the recorded one
            return call(p, peer0, x0_, start0)
        p = dict(p, plan=svdfault.resolve_fractions(p['plan'], _count))
    if p.get('prelude') is not None:
        # history dimension: an earlier interpolation of another function on the same grid in this process (with its own
        # peer); the checked call must not depend on it (memoised samples, reused index sets)
        pp = dict(p, vseed=p['prelude'], plan=None, prelude=None)
        try:
            peer2, _, x2, start2 = build(pp)
            seams.seed_global(p['tseed'] ^ 0x5a5a5a)
            call(pp, peer2, x2, start2)
        except Exception:
            core.bump(stats, 'history.prelude_raised')
        core.bump(stats, 'probe.call_with_history')
    seams.seed_global(p['tseed'])
    y, exc, f = svdfault.run_with_plan(lambda: call(p, peer, x, start), p['plan'] or {})
    svdfault.branch_stats(f, stats)
    core.bump(stats, 'api.' + api)
    core.bump(stats, 'peer.requests', peer.calls)
    core.bump(stats, 'peer.rows', peer.rows)
    if any(n < 4 + 2 for n in p['N']):
        core.bump(stats, 'probe.mode_smaller_than_rank_plus_kick')
    if p['plan'] and f.fired_primary == 0:
        core.bump(stats, 'probe.fault_plan_not_reached')
    if peer.bad is not None:
        out.append(core.violation(PROP, 'REQUEST', api, peer.bad[0], peer.bad[1], desc))
    for obj, snap, what in snaps:
        r = check_unchanged(obj, snap)
        if r is not None:
            out.append(core.violation(PROP, 'OPERAND', api, r[0], '%s changed: %s' % (what, r[1]), desc))
    if exc is not None:
        out.append(core.violation(PROP, 'RAISED', api, type(exc).__name__, '%s raised %s: %s' % (api, type(exc).__name__, str(exc)[:120]), desc))
        return out, None
    if not isinstance(y, TT):
        out.append(core.violation(PROP, 'RESULT', api, 'type', 'returned %s' % type(y).__name__, desc))
        return out, None
    r = check_wf(y, do_full=True)
    if r is not None:
        out.append(core.violation(PROP, 'RESULT', api, 'wf-' + r[0], r[1], desc))
        return out, None
    if y.is_ttm or gen.ints(y.N) != list(p['N']):
        out.append(core.violation(PROP, 'RESULT', api, 'shape', 'result N=%s expected %s' % (y.N, p['N']), desc))
        return out, None
    ne = gen.fro(exact)
    err = gen.fro(gen.dense(y) - exact)
    ratio = err / (p['eps'] * ne)
    if not err <= C * p['eps'] * ne + 1e-12 * ne:
        blow = max(float(c.abs().max()) for c in y.cores) / max(float(exact.abs().max()), 1e-300)
        out.append(core.violation(PROP, 'ACCURACY', api, 'error', 'relative error %.3g = %.3g * eps (eps=%.0e), ranks %s, %d requests, largest core entry / largest exact entry = %.3g' % (
            err / ne, ratio, p['eps'], gen.ints(y.R), peer.calls, blow), desc, extra={'core_blowup': blow, 'target': p['target']}))
    elif ratio > 1.0:
        res['near'].append((round(ratio, 3), fam))
        core.bump(stats, 'probe.ratio_above_1')
    return out, ratio


def run_one(rng, tier, res, opts):
    p = gen_case(rng)
    log = core.EventLog()
    viol, ratio = exec_case(p, res)
    for v in viol:
        res['viol'].append(v)
        log.add('VIOL', v['oracle'], v['field'])
    core.bump(res['stats'], 'runs')
    log.add('case', core.digest_of(p), ratio, sorted(res['stats'].items()))
    res['digest'] = log.digest()
    if res['i'] < 3:
        res['sample'] = {'run': res['i'], 'case': p, 'err_over_eps': ratio}


def replay(desc, opts):
    res = core.new_result(-1)
    viol, ratio = exec_case(desc['case'], res)
    return viol


def shrink_candidates(desc):
    p = desc['case']
    if p.get('plan'):
        yield {'case': dict(p, plan=None)}
    if p.get('prelude') is not None:
        yield {'case': dict(p, prelude=None)}
    d = len(p['N'])
    if d > 2:
        yield {'case': dict(p, N=p['N'][:-1], R=p['R'][:-2] + [1])}
        yield {'case': dict(p, N=p['N'][1:], R=[1] + p['R'][2:])}
    for k in range(d):
        if p['N'][k] > 2:
            N = list(p['N'])
            N[k] = max(2, N[k] // 2)
            yield {'case': dict(p, N=N)}
    if any(r > 1 for r in p['R']):
        yield {'case': dict(p, R=[1] + [max(1, r - 1) for r in p['R'][1:-1]] + [1])}
    if p['api'] == 'dmrg_cross_start':
        yield {'case': dict(p, api='dmrg_cross')}
    if p['api'] == 'fi_multi_start':
        yield {'case': dict(p, api='fi_multi')}
