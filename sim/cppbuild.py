"""
Build and load the optional C++ backend from /repo/cpp (DESIGN.md 3.7).

The repository's setup.py cannot build here (torch 2.14 headers need C++20 and
setup.py passes -std=c++17; -lblas/-llapack are given as *compile* args so the
module is left with unresolved dgesv_).  The check therefore compiles
cpp/cpp_ext.cpp itself with the repository's flags except -std=c++20 and links
-llapack -lblas normally (local scope).  No source line of cpp/ is altered.
The build is cached by the sha256 of cpp/* under /verif/.build/.
"""
import os
import sys
import glob
import hashlib
import subprocess
import sysconfig

from sim import core

MODNAME = 'torchttcpp'


def source_hash():
    h = hashlib.sha256()
    for f in sorted(glob.glob(os.path.join(core.REPO, 'cpp', '*'))):
        if os.path.isfile(f):
            h.update(os.path.basename(f).encode())
            with open(f, 'rb') as fh:
                h.update(fh.read())
    import torch
    h.update(torch.__version__.encode())
    return h.hexdigest()[:20]


def build(verbose=False):
    """Returns (directory containing torchttcpp*.so, None) or (None, error)."""
    import torch.utils.cpp_extension as ce
    tag = source_hash()
    bdir = os.path.join(core.VERIF, '.build', tag)
    so = os.path.join(bdir, MODNAME + sysconfig.get_config_var('EXT_SUFFIX'))
    if os.path.exists(so):
        return bdir, None
    os.makedirs(bdir, exist_ok=True)
    inc = ce.include_paths() + [sysconfig.get_paths()['include']]
    libdirs = ce.library_paths()
    tmp = so + '.tmp.%d' % os.getpid()
    cmd = ['g++', '-shared', '-fPIC', '-O2', '-std=c++20', '-Wno-c++11-narrowing', '-w',
           '-DTORCH_EXTENSION_NAME=' + MODNAME, '-DTORCH_API_INCLUDE_EXTENSION_H', '-D_GLIBCXX_USE_CXX11_ABI=%d' % int(__import__('torch')._C._GLIBCXX_USE_CXX11_ABI)]
    for i in inc:
        cmd += ['-isystem', i]
    cmd += [os.path.join(core.REPO, 'cpp', 'cpp_ext.cpp'), '-o', tmp]
    for l in libdirs:
        cmd += ['-L' + l, '-Wl,-rpath,' + l]
    cmd += ['-lc10', '-ltorch', '-ltorch_cpu', '-ltorch_python', '-llapack', '-lblas']
    try:
        p = subprocess.run(cmd, capture_output=True, text=True, timeout=1500)
    except Exception as e:
        return None, 'compiler did not run: %r' % (e,)
    if p.returncode != 0:
        return None, 'g++ failed: ' + (p.stderr or p.stdout)[-1500:]
    os.replace(tmp, so)
    return bdir, None


def load(bdir):
    """Import the module (must happen before torchtt is imported so that torchtt sees it)."""
    if bdir not in sys.path:
        sys.path.insert(0, bdir)
    import torch  # noqa
    import importlib
    return importlib.import_module(MODNAME)
