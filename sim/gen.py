"""
Workload helpers shared by the checks: dtype table, private value generator,
independent dense contraction, bitwise snapshots.
"""
import hashlib

import numpy as np
import torch

DTYPES = {
    'f64': torch.float64,
    'f32': torch.float32,
    'c128': torch.complex128,
    'c64': torch.complex64,
}
DT_NAME = {v: k for k, v in DTYPES.items()}
UNIT_ROUNDOFF = {'f64': 2.0 ** -53, 'c128': 2.0 ** -53, 'f32': 2.0 ** -24, 'c64': 2.0 ** -24}


def vgen(vseed):
    g = torch.Generator()
    g.manual_seed(int(vseed))
    return g


def randn(shape, dtype, g):
    """Values from the harness's private generator (never the global one)."""
    dt = DTYPES[dtype] if isinstance(dtype, str) else dtype
    if dt.is_complex:
        real = torch.float64 if dt == torch.complex128 else torch.float32
        return torch.complex(torch.randn(shape, dtype=real, generator=g), torch.randn(shape, dtype=real, generator=g))
    return torch.randn(shape, dtype=dt, generator=g)


def rand_cores(N, R, dtype, g, M=None):
    cores = []
    for k in range(len(N)):
        if M is None:
            cores.append(randn([R[k], N[k], R[k + 1]], dtype, g))
        else:
            cores.append(randn([R[k], M[k], N[k], R[k + 1]], dtype, g))
    return cores


def dense_from_cores(cores):
    """Independent dense reconstruction (checker's own contraction).  Tensor:
    shape N1..Nd.  Operator (4-d cores): shape M1..Md,N1..Nd."""
    c0 = cores[0]
    if c0.dim() == 3:
        t = c0.reshape(c0.shape[1], c0.shape[2]) if c0.shape[0] == 1 else None
        t = c0[0]
        for c in cores[1:]:
            t = torch.tensordot(t, c, dims=([t.dim() - 1], [0]))
        return t[..., 0]
    t = c0[0]
    for c in cores[1:]:
        t = torch.tensordot(t, c, dims=([t.dim() - 1], [0]))
    t = t[..., 0]
    d = len(cores)
    perm = [2 * i for i in range(d)] + [2 * i + 1 for i in range(d)]
    return t.permute(perm)


def dense(x):
    return dense_from_cores([c.detach() for c in x.cores])


def core_bytes(c):
    c = c.detach()
    if c.is_conj():
        c = c.resolve_conj()
    if c.is_neg():
        c = c.resolve_neg()
    return c.contiguous().cpu().numpy().tobytes()


def cores_sha(cores):
    h = hashlib.sha256()
    for c in cores:
        h.update(str(tuple(c.shape)).encode())
        h.update(str(c.dtype).encode())
        h.update(core_bytes(c))
    return h.hexdigest()[:16]


def ints(l):
    return [int(v) for v in l]


def struct(x):
    """Structure key of a TT object (from its cores, not its metadata)."""
    cs = x.cores
    return ('M' if cs[0].dim() == 4 else 'T', tuple(tuple(c.shape) for c in cs), DT_NAME.get(cs[0].dtype, str(cs[0].dtype)))


def fro(t):
    return float(torch.linalg.norm(t.reshape(-1)).real)


def rel_err(a, b):
    nb = fro(b)
    d = fro(a - b)
    return d / nb if nb > 0 else d


def graded_cores(N, J, step, dtype, g, M=None):
    """TT (or TT-matrix) = sum_{j=0..J} 10^(-j*step) * (random rank-one term with unit-norm factors), stored with
    rank J+1 block-diagonal cores.  Its unfoldings have singular values spread geometrically over J*step decades, so
    every truncation threshold cuts somewhere and an inflated threshold shows up as a proportionally larger error."""
    d = len(N)
    r = J + 1
    cores = []
    for k in range(d):
        shape = [1 if k == 0 else r] + ([M[k]] if M is not None else []) + [N[k], 1 if k == d - 1 else r]
        c = torch.zeros(shape, dtype=DTYPES[dtype] if isinstance(dtype, str) else dtype)
        for j in range(r):
            v = randn(shape[1:-1], dtype, g)
            v = v / max(fro(v), 1e-300)
            if k == 0:
                v = v * (10.0 ** (-j * step))
            c[0 if k == 0 else j, ..., 0 if k == d - 1 else j] = v
        cores.append(c)
    return cores
