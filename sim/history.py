"""
The history machine (DESIGN.md 3.2, 3.3): a heap of live, mutually aliasing TT
objects; seeded sequences of public operations whose operands (and optional
initial guesses) are taken from the heap; snapshot and well-formedness oracles
after every step and at seeded pre-emption points inside operations.

A history is a list of self-contained step descriptors

    {"sid": "7", "op": "add", "args": ["3", "5"], "p": {...}, "tseed": 123,
     "obs": [17, 40]}

Operands are referred to by the id of the step that created them, every step
carries its own seed for the global torch PRNG, so deleting steps keeps the
rest meaningful (needed for shrinking) and replay depends only on the trace.
"""
import sys
import signal
import collections

import numpy as np
import torch

import torchtt
from torchtt import TT

from sim import core, gen, seams

MAX_HEAP = 12
MAX_STORE = 20000
MAX_DENSE = 200000      # full() is only called when the dense array is at most this large
MAX_ORDER = 8
STEP_TIMEOUT = 120      # seconds (wall-clock backstop); a step that does not return is an outcome class, never a violation
LINE_BUDGET = 300000   # deterministic budget (torchtt line events) for the steps that are known to be able to spin
BUDGET_OPS = ('amen_solve', 'divide')


class StepTimeout(Exception):
    pass


def _on_alarm(signum, frame):
    raise StepTimeout('step exceeded %d s' % STEP_TIMEOUT)


class step_alarm:
    def __enter__(self):
        self.old = signal.signal(signal.SIGALRM, _on_alarm)
        signal.alarm(STEP_TIMEOUT)

    def __exit__(self, *exc):
        signal.alarm(0)
        signal.signal(signal.SIGALRM, self.old)
        return False


def dense_numel(x):
    n = 1
    for c in x.cores:
        for v in c.shape[1:-1]:
            n *= int(v)
    return n
MISSING = object()

# --------------------------------------------------------------------------
# snapshot model + oracles


def take_snap(x):
    cs = x.cores
    return {
        'cb': [gen.core_bytes(c) for c in cs],
        'cs': [tuple(c.shape) for c in cs],
        'dt': [str(c.dtype) for c in cs],
        'R': gen.ints(x.R),
        'N': gen.ints(x.N),
        'M': gen.ints(x.M) if x.is_ttm else None,
        'ttm': bool(x.is_ttm),
    }


def check_unchanged(x, snap):
    """C06 oracle.  None or (field, message)."""
    cs = x.cores
    if len(cs) != len(snap['cs']):
        return 'ncores', 'number of cores %d -> %d' % (len(snap['cs']), len(cs))
    for k, c in enumerate(cs):
        if tuple(c.shape) != snap['cs'][k]:
            return 'core_shape', 'core %d shape %s -> %s' % (k, snap['cs'][k], tuple(c.shape))
        if str(c.dtype) != snap['dt'][k]:
            return 'dtype', 'core %d dtype %s -> %s' % (k, snap['dt'][k], c.dtype)
    try:
        if gen.ints(x.R) != snap['R']:
            return 'R', 'R %s -> %s' % (snap['R'], list(x.R))
        if gen.ints(x.N) != snap['N']:
            return 'N', 'N %s -> %s' % (snap['N'], list(x.N))
        if bool(x.is_ttm) != snap['ttm']:
            return 'is_ttm', 'is_ttm changed'
        if snap['ttm'] and gen.ints(x.M) != snap['M']:
            return 'M', 'M %s -> %s' % (snap['M'], list(x.M))
    except Exception as e:
        return 'meta', 'metadata unreadable: %r' % (e,)
    for k, c in enumerate(cs):
        if gen.core_bytes(c) != snap['cb'][k]:
            return 'value', 'core %d changed value' % k
    return None


def _norm_shape(sh):
    out = []
    for s in sh:
        if isinstance(s, (tuple, list)):
            out.append(tuple(int(v) for v in s))
        else:
            out.append(int(s))
    return out


def check_wf(x, do_full=False):
    """C05 oracle.  None or (field, message)."""
    cs = getattr(x, 'cores', None)
    if not isinstance(cs, list) or len(cs) == 0:
        return 'cores', 'cores is not a non-empty list'
    nd = set(c.dim() for c in cs)
    if nd != {3} and nd != {4}:
        return 'ndim', 'cores are not all 3-d or all 4-d: %s' % sorted(nd)
    ttm = nd == {4}
    for k in range(len(cs) - 1):
        if cs[k].shape[-1] != cs[k + 1].shape[0]:
            return 'chain', 'cores %d,%d disagree on the shared rank: %s %s' % (k, k + 1, tuple(cs[k].shape), tuple(cs[k + 1].shape))
    if cs[0].shape[0] != 1 or cs[-1].shape[-1] != 1:
        return 'boundary', 'boundary ranks %d,%d' % (cs[0].shape[0], cs[-1].shape[-1])
    try:
        if bool(x.is_ttm) != ttm:
            return 'is_ttm', 'is_ttm=%s but cores are %d-d' % (x.is_ttm, 4 if ttm else 3)
        R_true = [int(c.shape[0]) for c in cs] + [int(cs[-1].shape[-1])]
        N_true = [int(c.shape[-2]) for c in cs]
        M_true = [int(c.shape[1]) for c in cs] if ttm else []
        R = gen.ints(x.R)
        if R != R_true:
            return 'R', 'R=%s but cores have %s' % (R, R_true)
        N = gen.ints(x.N)
        if N != N_true:
            return 'N', 'N=%s but cores have %s' % (N, N_true)
        if ttm:
            M = gen.ints(x.M)
            if M != M_true:
                return 'M', 'M=%s but cores have %s' % (M, M_true)
        sh = getattr(x, 'shape', MISSING)
        exp = [(m, n) for m, n in zip(M_true, N_true)] if ttm else N_true
        if sh is MISSING:
            return 'shape', 'shape attribute missing'
        if _norm_shape(sh) != exp:
            return 'shape', 'shape=%s but cores have %s' % (list(sh), exp)
    except Exception as e:
        return 'meta', 'metadata unreadable: %r' % (e,)
    if do_full and dense_numel(x) <= MAX_DENSE:
        try:
            f = x.full()
        except Exception as e:
            return 'full', 'full() raised %s: %s' % (type(e).__name__, str(e)[:80])
        if [int(v) for v in f.shape] != M_true + N_true:
            return 'full_shape', 'full().shape=%s expected %s' % (list(f.shape), M_true + N_true)
    return None


class Entry:
    __slots__ = ('obj', 'sid', 'snap')

    def __init__(self, obj, sid):
        self.obj = obj
        self.sid = sid
        self.snap = take_snap(obj)


class Heap:
    def __init__(self):
        self.entries = collections.OrderedDict()

    def add(self, sid, obj):
        self.entries[sid] = Entry(obj, sid)

    def objs(self, pred=None):
        return [e for e in self.entries.values() if pred is None or pred(e.obj)]


# --------------------------------------------------------------------------
# helpers for operation definitions

def dt_of(x):
    return x.cores[0].dtype


def dtn(x):
    return gen.DT_NAME.get(dt_of(x), 'f64')


def is_t(x):
    return not x.is_ttm


def is_m(x):
    return x.is_ttm


def store(x):
    return sum(int(c.numel()) for c in x.cores)


def rshape(rng, omax=4, nmax=4, allow1=True):
    d = rng.choice([1, 2, 2, 3, 3, 3, 4])
    d = min(d, omax)
    lo = 1 if allow1 else 2
    return [rng.randint(lo, nmax) if rng.random() < 0.85 else 1 if allow1 else 2 for _ in range(d)]


def rranks(rng, d, rmax=3):
    return [1] + [rng.randint(1, rmax) for _ in range(d - 1)] + [1]


def pick_dt(rng):
    return rng.choice(['f64', 'f64', 'f64', 'c128', 'f32'])


OPS = collections.OrderedDict()


def op(name, weight=1.0, inplace=False):
    def deco(cls):
        cls.name = name
        cls.weight = weight
        cls.inplace = inplace
        OPS[name] = cls
        return cls
    return deco


def scalar_of(p, x):
    k = p['sk']
    v = p['sv']
    if k == 'int':
        return int(v)
    if k == 'float':
        return float(v)
    if k == 'np':
        return np.float64(v)
    # tensor scalars carry the operand's dtype: mixed-dtype algebra is outside every property
    if k == 't0':
        return torch.tensor(float(v), dtype=dt_of(x))
    if k == 't1':
        return torch.tensor([float(v)], dtype=dt_of(x))
    if k == 'complex':
        return complex(v, 0.5)
    return float(v)


def pick_scalar(rng, zero_ok=True):
    k = rng.choice(['int', 'float', 'float', 'np', 't0', 't1'])
    v = rng.choice([2, -3, 0.5, 1.25, 7, -1] + ([0] if zero_ok else []))
    return {'sk': k, 'sv': v}


# --------------------------------------------------------------------------
# constructors

@op('create', 6.0)
class Create:
    @staticmethod
    def pick(rng, S):
        kind = rng.choice(['cores', 'cores', 'cores_m', 'cores_m', 'random', 'random_m', 'randn', 'svd', 'svd', 'svd_np',
                           'svd_shape', 'svd_m', 'svd_m', 'svd_m_np', 'ones', 'zeros', 'zeros_m', 'ones_m', 'eye', 'xfun', 'rank1', 'meshgrid'])
        dt = pick_dt(rng)
        # reuse an existing shape half of the time so that binary operations find partners
        N = None
        M = None
        if S.entries and rng.random() < 0.55:
            e = rng.choice(list(S.entries.values()))
            N = gen.ints(e.obj.N)
            M = gen.ints(e.obj.M) if e.obj.is_ttm else None
            dt = dtn(e.obj) if rng.random() < 0.8 else dt
            if rng.random() < 0.3 and M is not None:
                N, M = (M, N) if rng.random() < 0.5 else (N, N)
        if N is not None:
            # a shape copied from a heap object may have grown (Kronecker products, padding, reshapes): kinds that
            # build a dense array first, and any kind with very large modes, fall back to a fresh small shape
            tot = int(np.prod(N)) * (int(np.prod(M)) if M is not None else 1)
            if tot > 50000 or max(N) > 64 or len(N) > MAX_ORDER:
                N, M = None, None
        if N is None:
            N = rshape(rng)
        d = len(N)
        if M is None or len(M) != d:
            M = [rng.randint(1, 4) for _ in range(d)] if rng.random() < 0.5 else list(N)
        if kind in ('svd_m', 'svd_m_np') and int(np.prod(N)) * int(np.prod(M)) > 50000:
            # the row sizes were drawn after the bound above was applied to a tensor shape: a dense operator source of
            # (prod N)^2 entries is a quarter of an hour of SVD
            N = rshape(rng)
            d = len(N)
            M = [rng.randint(1, 4) for _ in range(d)]
        R = rranks(rng, d)
        p = {'kind': kind, 'N': N, 'M': M, 'R': R, 'dt': dt, 'vseed': rng.getrandbits(31),
             'eps': rng.choice([1e-12, 1e-8, 1e-3, 0.1]),
             # layout of the dense source handed to the constructor together with an explicit shape: the constructor
             # promises to reshape first, so any layout with the right number of entries is legal
             'layout': rng.choice(['natural', 'natural', 'flat', 'matrix', 'unit_axis'])}
        return [], p

    @staticmethod
    def run(S, objs, p):
        kind, N, M, R, dt = p['kind'], p['N'], p['M'], p['R'], p['dt']
        g = gen.vgen(p['vseed'])
        tdt = gen.DTYPES[dt]
        d = len(N)
        if kind == 'cores':
            return TT(gen.rand_cores(N, R, dt, g))
        if kind == 'cores_m':
            return TT(gen.rand_cores(N, R, dt, g, M))
        if kind == 'random':
            return torchtt.random(N, R, dtype=tdt)
        if kind == 'random_m':
            return torchtt.random([(m, n) for m, n in zip(M, N)], R, dtype=tdt)
        if kind == 'randn':
            return torchtt.randn(N, R, var=2.0, dtype=tdt)
        if kind in ('svd', 'svd_np', 'svd_shape'):
            full = gen.dense_from_cores(gen.rand_cores(N, R, dt, g))
            full = full + 1e-6 * gen.randn(list(full.shape), dt, g)
            if kind == 'svd_np':
                return TT(full.numpy(), eps=p['eps'])
            if kind == 'svd_shape':
                lay = p.get('layout', 'natural')
                src = full.reshape(-1) if lay in ('flat', 'natural') else full.reshape(list(full.shape) + [1]) if lay == 'unit_axis' else full.reshape(N[0], -1)
                shp = list(np.array(N)) if p['vseed'] % 3 == 0 else list(N)      # a shape computed with numpy is legal too
                return TT(src, shape=shp, eps=p['eps'])
            return TT(full, eps=p['eps'])
        if kind in ('svd_m', 'svd_m_np'):
            full = gen.dense_from_cores(gen.rand_cores(N, R, dt, g, M))
            lay = p.get('layout', 'natural')
            if lay == 'flat':
                full = full.reshape(-1)
            elif lay == 'matrix':
                full = full.reshape(int(np.prod(M)), int(np.prod(N)))
            elif lay == 'unit_axis':
                full = full.reshape(list(full.shape) + [1])
            if kind == 'svd_m_np':
                full = full.numpy()
            return TT(full, [(m, n) for m, n in zip(M, N)], eps=p['eps'])
        if kind == 'ones':
            return torchtt.ones(N, dtype=tdt)
        if kind == 'zeros':
            return torchtt.zeros(N, dtype=tdt)
        if kind == 'ones_m':
            return torchtt.ones([(m, n) for m, n in zip(M, N)], dtype=tdt)
        if kind == 'zeros_m':
            return torchtt.zeros([(m, n) for m, n in zip(M, N)], dtype=tdt)
        if kind == 'eye':
            return torchtt.eye(N, dtype=tdt)
        if kind == 'xfun':
            return torchtt._extras.xfun(N, dtype=tdt)
        if kind == 'rank1':
            return torchtt.rank1TT([gen.randn([n], dt, g) for n in N])
        if kind == 'meshgrid':
            return torchtt.meshgrid([gen.randn([n], dt, g) for n in N])[:3]
        raise ValueError(kind)


# --------------------------------------------------------------------------
# algebra

def _partner(rng, S, x, same_shape=True, kind=None):
    def ok(y):
        if kind is None and y.is_ttm != x.is_ttm:
            return False
        if kind == 'T' and y.is_ttm:
            return False
        if kind == 'M' and not y.is_ttm:
            return False
        if dt_of(y) != dt_of(x):
            return False
        if same_shape:
            if gen.ints(y.N) != gen.ints(x.N):
                return False
            if x.is_ttm and y.is_ttm and gen.ints(y.M) != gen.ints(x.M):
                return False
        return True
    c = S.objs(ok)
    return rng.choice(c) if c else None


def _binary(name, weight, fn, cond=None):
    @op(name, weight)
    class B:
        @staticmethod
        def pick(rng, S):
            if not S.entries:
                return None
            x = rng.choice(list(S.entries.values()))
            y = _partner(rng, S, x.obj, same_shape=rng.random() < 0.9)
            if y is None or (cond is not None and not cond(x.obj, y.obj)):
                return None
            return [x.sid, y.sid], {}

        @staticmethod
        def run(S, objs, p):
            return fn(objs[0], objs[1])
    return B


_binary('add', 3.0, lambda a, b: a + b)
_binary('sub', 3.0, lambda a, b: a - b)
_binary('mul', 3.0, lambda a, b: a * b)
_binary('kron', 1.0, lambda a, b: a ** b, lambda x, y: len(x.N) + len(y.N) <= MAX_ORDER)
_binary('kron_fn', 0.5, lambda a, b: torchtt.kron(a, b), lambda x, y: len(x.N) + len(y.N) <= MAX_ORDER)


@op('bcast', 1.0)
class Bcast:
    """x (+|-|*) y with y of lower order / singleton modes (torch broadcasting)."""
    @staticmethod
    def pick(rng, S):
        c = S.objs(lambda x: is_t(x) and len(x.N) >= 2)
        if not c:
            return None
        x = rng.choice(c)
        N = gen.ints(x.obj.N)
        k = rng.randint(1, len(N))
        Ny = [n if rng.random() < 0.6 else 1 for n in N[len(N) - k:]]
        return [x.sid], {'Ny': Ny, 'Ry': rranks(rng, len(Ny)), 'vseed': rng.getrandbits(31), 'o': rng.choice(['+', '-', '*'])}

    @staticmethod
    def run(S, objs, p):
        x = objs[0]
        y = TT(gen.rand_cores(p['Ny'], p['Ry'], dtn(x), gen.vgen(p['vseed'])))
        return {'+': lambda: x + y, '-': lambda: x - y, '*': lambda: x * y}[p['o']]()


@op('scalar', 4.0)
class Scalar:
    @staticmethod
    def pick(rng, S):
        if not S.entries:
            return None
        x = rng.choice(list(S.entries.values()))
        p = pick_scalar(rng)
        p['o'] = rng.choice(['x+s', 's+x', 'x-s', 's-x', 'x*s', 's*x', 'x/s', 'x/s', 'x/s'])
        if p['o'] == 'x/s' and p['sv'] == 0:
            p['sv'] = 2
        if rng.random() < 0.25 and dt_of(x.obj).is_complex:
            p['sk'] = 'complex'   # complex scalars only with complex operands (mixed dtypes are outside every property)
        return [x.sid], p

    @staticmethod
    def run(S, objs, p):
        x = objs[0]
        s = scalar_of(p, x)
        o = p['o']
        if o == 'x+s':
            return x + s
        if o == 's+x':
            return s + x
        if o == 'x-s':
            return x - s
        if o == 's-x':
            return s - x
        if o == 'x*s':
            return x * s
        if o == 's*x':
            return s * x
        return x / s


@op('unary', 2.0)
class Unary:
    @staticmethod
    def pick(rng, S):
        if not S.entries:
            return None
        x = rng.choice(list(S.entries.values()))
        return [x.sid], {'o': rng.choice(['neg', 'pos', 'conj', 'clone', 'detach', 'cpu', 'pow_none', 'kron_none', 'ellipsis'])}

    @staticmethod
    def run(S, objs, p):
        x = objs[0]
        o = p['o']
        if o == 'neg':
            return -x
        if o == 'pos':
            return +x
        if o == 'conj':
            return x.conj()
        if o == 'clone':
            return x.clone()
        if o == 'detach':
            return x.detach()
        if o == 'cpu':
            return x.cpu()
        if o == 'pow_none':
            return x ** None
        if o == 'kron_none':
            return torchtt.kron(None, x)
        return x[...]


@op('ctor_shape_of', 1.5)
class CtorShapeOf:
    """TT(dense, shape=x.shape): a new object built with the *shape attribute* of a live object as its shape argument
    (the natural way to say 'same shape as x')."""
    @staticmethod
    def pick(rng, S):
        c = S.objs(lambda a: dense_numel(a) <= 5000 and hasattr(a, 'shape'))
        if not c:
            return None
        x = rng.choice(c)
        return [x.sid], {'vseed': rng.getrandbits(31), 'src': rng.choice(['torch', 'numpy']), 'eps': rng.choice([1e-12, 1e-4]),
                         'via': rng.choice(['shape', 'shape', 'N'])}

    @staticmethod
    def run(S, objs, p):
        x = objs[0]
        g = gen.vgen(p['vseed'])
        N = gen.ints(x.N)
        if x.is_ttm:
            M = gen.ints(x.M)
            dense = gen.randn(M + N, dtn(x), g)
        else:
            dense = gen.randn(N, dtn(x), g)
        if p['src'] == 'numpy':
            dense = dense.numpy()
        shp = x.shape if (p['via'] == 'shape' or x.is_ttm) else x.N
        return TT(dense, shp, eps=p['eps'])


@op('to', 1.0)
class To:
    @staticmethod
    def pick(rng, S):
        if not S.entries:
            return None
        x = rng.choice(list(S.entries.values()))
        return [x.sid], {'dt': rng.choice(['f64', 'f32', 'c128', None])}

    @staticmethod
    def run(S, objs, p):
        return objs[0].to(dtype=gen.DTYPES[p['dt']] if p['dt'] else None)


@op('matmul', 4.0)
class Matmul:
    @staticmethod
    def pick(rng, S):
        c = S.objs(is_m)
        if not c:
            return None
        A = rng.choice(c)
        a = A.obj
        mode = rng.choice(['Ax', 'Ax', 'xA', 'AB', 'Ad'])
        if mode == 'Ax':
            ys = S.objs(lambda y: is_t(y) and dt_of(y) == dt_of(a) and gen.ints(y.N) == gen.ints(a.N))
        elif mode == 'xA':
            ys = S.objs(lambda y: is_t(y) and dt_of(y) == dt_of(a) and gen.ints(y.N) == gen.ints(a.M))
        elif mode == 'AB':
            ys = S.objs(lambda y: is_m(y) and dt_of(y) == dt_of(a) and gen.ints(y.M) == gen.ints(a.N))
        else:
            return [A.sid], {'mode': 'Ad', 'batch': rng.choice([[], [2], [2, 3]]), 'vseed': rng.getrandbits(31)}
        if not ys:
            return None
        y = rng.choice(ys)
        return ([y.sid, A.sid] if mode == 'xA' else [A.sid, y.sid]), {'mode': mode}

    @staticmethod
    def run(S, objs, p):
        if p['mode'] == 'Ad':
            A = objs[0]
            dense = gen.randn(p['batch'] + gen.ints(A.N), dtn(A), gen.vgen(p['vseed']))
            return A @ dense
        return objs[0] @ objs[1]


@op('t', 1.5)
class Transpose:
    @staticmethod
    def pick(rng, S):
        c = S.objs(is_m)
        if not c:
            return None
        return [rng.choice(c).sid], {}

    @staticmethod
    def run(S, objs, p):
        return objs[0].t()


@op('to_ttm', 1.0)
class ToTTM:
    @staticmethod
    def pick(rng, S):
        c = S.objs(is_t)
        if not c:
            return None
        return [rng.choice(c).sid], {}

    @staticmethod
    def run(S, objs, p):
        return objs[0].to_ttm()


@op('diag', 1.5)
class Diag:
    @staticmethod
    def pick(rng, S):
        c = S.objs(lambda x: is_t(x) or gen.ints(x.M) == gen.ints(x.N))
        if not c:
            return None
        return [rng.choice(c).sid], {}

    @staticmethod
    def run(S, objs, p):
        return torchtt.diag(objs[0])


# --------------------------------------------------------------------------
# rounding / reshaping

@op('round', 3.0)
class Round:
    @staticmethod
    def pick(rng, S):
        if not S.entries:
            return None
        x = rng.choice(list(S.entries.values()))
        d = len(x.obj.N)
        rmax = rng.choice([None, None, 1, 2, 'list'])
        if rmax == 'list':
            rmax = [1] + [rng.randint(1, 3) for _ in range(d - 1)] + [1]
        return [x.sid], {'eps': rng.choice([0.0, 1e-14, 1e-10, 1e-4, 0.1, 0.9]), 'rmax': rmax}

    @staticmethod
    def run(S, objs, p):
        if p['rmax'] is None:
            return objs[0].round(p['eps'])
        return objs[0].round(p['eps'], p['rmax'])


def _factorizations(n, rng, maxlen=4):
    out = []
    rem = n
    while rem > 1 and len(out) < maxlen - 1:
        divs = [q for q in range(1, rem + 1) if rem % q == 0]
        q = rng.choice(divs)
        out.append(q)
        rem //= q
    out.append(rem)
    for _ in range(rng.choice([0, 0, 1])):
        out.insert(rng.randint(0, len(out)), 1)
    return out


@op('reshape', 2.0)
class Reshape:
    @staticmethod
    def pick(rng, S):
        # merging modes builds cores as large as the merged modes: keep to objects whose dense array is moderate
        # (an operator grown to 19600 x 19600 by Kronecker products and padding kept one SVD busy for minutes)
        c = S.objs(lambda a: dense_numel(a) <= MAX_DENSE)
        if not c:
            return None
        x = rng.choice(c)
        o = x.obj
        nN = int(np.prod(gen.ints(o.N)))
        shN = _factorizations(nN, rng)
        if o.is_ttm:
            nM = int(np.prod(gen.ints(o.M)))
            if rng.random() < 0.6 and gen.ints(o.M) == gen.ints(o.N):
                shM = list(shN)
            else:
                shM = _factorizations(nM, rng, len(shN))
                while len(shM) < len(shN):
                    shM.append(1)
                shM = shM[:len(shN)]
                if int(np.prod(shM)) != nM:
                    shM[-1] = shM[-1] * (nM // max(1, int(np.prod(shM))))
            shape = [[m, n] for m, n in zip(shM, shN)]
        else:
            shape = shN
        return [x.sid], {'shape': shape, 'eps': rng.choice([None, 1e-12, 1e-3])}

    @staticmethod
    def run(S, objs, p):
        x = objs[0]
        shape = [tuple(s) for s in p['shape']] if x.is_ttm else list(p['shape'])
        if p['eps'] is None:
            return torchtt.reshape(x, shape)
        return torchtt.reshape(x, shape, p['eps'])


@op('permute', 1.5)
class Permute:
    @staticmethod
    def pick(rng, S):
        # bounded like reshape: a random permutation of a long operator chain makes the ranks grow towards the size of the
        # unfoldings, and one supercore SVD of an order-8 operator with 6x8 modes runs for a quarter of an hour
        c = S.objs(lambda x: len(x.N) >= 2 and dense_numel(x) <= MAX_DENSE)
        if not c:
            return None
        x = rng.choice(c)
        dims = list(range(len(x.obj.N)))
        rng.shuffle(dims)
        return [x.sid], {'dims': dims, 'eps': rng.choice([1e-12, 1e-4])}

    @staticmethod
    def run(S, objs, p):
        return torchtt.permute(objs[0], p['dims'], p['eps'])


@op('to_qtt', 1.0)
class ToQtt:
    @staticmethod
    def pick(rng, S):
        c = S.objs(lambda x: all(n in (1, 2, 4, 8, 16) for n in gen.ints(x.N)) and (is_t(x) or gen.ints(x.M) == gen.ints(x.N)) and dense_numel(x) <= MAX_DENSE)
        if not c:
            return None
        return [rng.choice(c).sid], {'eps': rng.choice([1e-12, 1e-3])}

    @staticmethod
    def run(S, objs, p):
        return objs[0].to_qtt(p['eps'])


@op('qtt_to_tens', 0.7)
class QttToTens:
    @staticmethod
    def pick(rng, S):
        c = S.objs(lambda x: is_t(x) and len(x.N) >= 2)
        if not c:
            return None
        x = rng.choice(c)
        N = gen.ints(x.obj.N)
        # merge adjacent modes at random
        out = []
        k = 0
        while k < len(N):
            j = min(len(N), k + rng.randint(1, 2))
            out.append(int(np.prod(N[k:j])))
            k = j
        return [x.sid], {'shape': out}

    @staticmethod
    def run(S, objs, p):
        return objs[0].qtt_to_tens(p['shape'])


# --------------------------------------------------------------------------
# slicing / reductions

def _rand_index(rng, N):
    idx = []
    for n in N:
        r = rng.random()
        if r < 0.35:
            idx.append(['i', rng.randint(-n, n - 1)])
        elif r < 0.8:
            a = rng.randint(0, n - 1)
            b = rng.randint(a + 1, n)
            idx.append(['s', a, b, rng.choice([1, 1, 2])])
        else:
            idx.append(['s', None, None, None])
    if rng.random() < 0.2:
        idx.insert(rng.randint(0, len(idx)), ['n'])
    return idx


def _mk_index(spec):
    out = []
    for s in spec:
        if s[0] == 'i':
            out.append(int(s[1]))
        elif s[0] == 's':
            out.append(slice(s[1], s[2], s[3]))
        elif s[0] == 'n':
            out.append(None)
        elif s[0] == 'e':
            out.append(Ellipsis)
    return tuple(out)


@op('getitem', 3.0)
class GetItem:
    @staticmethod
    def pick(rng, S):
        if not S.entries:
            return None
        x = rng.choice(list(S.entries.values()))
        o = x.obj
        if o.is_ttm:
            a = _rand_index(rng, gen.ints(o.M))
            a = [s for s in a if s[0] != 'n']
            b = []
            for s, n in zip(a, gen.ints(o.N)):
                if s[0] == 'i':
                    b.append(['i', rng.randint(0, n - 1)])
                else:
                    lo = rng.randint(0, n - 1)
                    b.append(['s', lo, rng.randint(lo + 1, n), 1])
            spec = a + b
        else:
            spec = _rand_index(rng, gen.ints(o.N))
            if rng.random() < 0.15 and len(spec) > 1:
                k = rng.randint(1, len(spec) - 1)
                spec = ([['e']] + spec[k:]) if rng.random() < 0.5 else (spec[:k] + [['e']])
            if len(o.N) == 1 and rng.random() < 0.5:
                return [x.sid], {'spec': spec[:1], 'bare': True}
        return [x.sid], {'spec': spec, 'bare': False}

    @staticmethod
    def run(S, objs, p):
        idx = _mk_index(p['spec'])
        if p.get('bare'):
            return objs[0][idx[0]]
        return objs[0][idx]


@op('sum', 2.0)
class Sum:
    @staticmethod
    def pick(rng, S):
        if not S.entries:
            return None
        x = rng.choice(list(S.entries.values()))
        d = len(x.obj.N)
        r = rng.random()
        if r < 0.25:
            index = None
        elif r < 0.4:
            index = rng.randint(0, d - 1)
        else:
            index = sorted(rng.sample(range(d), rng.randint(1, d)))
        return [x.sid], {'index': index}

    @staticmethod
    def run(S, objs, p):
        return objs[0].sum(p['index'])


@op('scalars', 2.0)
class Scalars:
    """Operations returning numbers / dense arrays (norm, full, numpy, numel, repr)."""
    @staticmethod
    def pick(rng, S):
        if not S.entries:
            return None
        x = rng.choice(list(S.entries.values()))
        small = dense_numel(x.obj) <= MAX_DENSE
        return [x.sid], {'o': rng.choice(['norm', 'norm2', 'numel', 'repr'] + (['full', 'full', 'numpy'] if small else []))}

    @staticmethod
    def run(S, objs, p):
        x = objs[0]
        o = p['o']
        if o == 'norm':
            return x.norm()
        if o == 'norm2':
            return x.norm(True)
        if o == 'full':
            return x.full()
        if o == 'numpy':
            return x.numpy()
        if o == 'numel':
            return torchtt.numel(x)
        return repr(x)


@op('dot', 2.0)
class Dot:
    @staticmethod
    def pick(rng, S):
        c = S.objs(is_t)
        if not c:
            return None
        x = rng.choice(c)
        if rng.random() < 0.6:
            y = _partner(rng, S, x.obj, True, 'T')
            if y is None:
                return None
            return [x.sid, y.sid], {'axis': None}
        d = len(x.obj.N)
        axis = sorted(rng.sample(range(d), rng.randint(1, d)))
        Nx = gen.ints(x.obj.N)
        ys = S.objs(lambda y: is_t(y) and dt_of(y) == dt_of(x.obj) and gen.ints(y.N) == [Nx[a] for a in axis])
        if not ys:
            return None
        return [x.sid, rng.choice(ys).sid], {'axis': axis}

    @staticmethod
    def run(S, objs, p):
        return torchtt.dot(objs[0], objs[1], p['axis'])


@op('bilinear', 1.0)
class Bilinear:
    @staticmethod
    def pick(rng, S):
        c = S.objs(is_m)
        if not c:
            return None
        A = rng.choice(c)
        a = A.obj
        xs = S.objs(lambda y: is_t(y) and dt_of(y) == dt_of(a) and gen.ints(y.N) == gen.ints(a.M))
        ys = S.objs(lambda y: is_t(y) and dt_of(y) == dt_of(a) and gen.ints(y.N) == gen.ints(a.N))
        if not xs or not ys:
            return None
        return [rng.choice(xs).sid, A.sid, rng.choice(ys).sid], {}

    @staticmethod
    def run(S, objs, p):
        return torchtt.bilinear_form(objs[0], objs[1], objs[2])


@op('cat', 1.5)
class Cat:
    @staticmethod
    def pick(rng, S):
        c = S.objs(is_t)
        if not c:
            return None
        x = rng.choice(c)
        d = len(x.obj.N)
        dim = rng.randint(0, d - 1)
        Nx = gen.ints(x.obj.N)

        def ok(y):
            Ny = gen.ints(y.N)
            return is_t(y) and dt_of(y) == dt_of(x.obj) and len(Ny) == d and all(Ny[k] == Nx[k] for k in range(d) if k != dim)
        ys = S.objs(ok)
        k = rng.randint(1, 2)
        return [x.sid] + [rng.choice(ys).sid for _ in range(k)], {'dim': dim}

    @staticmethod
    def run(S, objs, p):
        return torchtt.cat(tuple(objs), p['dim'])


@op('pad', 1.5)
class Pad:
    @staticmethod
    def pick(rng, S):
        if not S.entries:
            return None
        x = rng.choice(list(S.entries.values()))
        d = len(x.obj.N)
        k = rng.randint(1, d)
        return [x.sid], {'padding': [[rng.randint(0, 2), rng.randint(0, 2)] for _ in range(k)], 'value': rng.choice([0.0, 0.0, 1.5])}

    @staticmethod
    def run(S, objs, p):
        return torchtt.pad(objs[0], tuple(tuple(q) for q in p['padding']), p['value'])


@op('mprod', 1.5)
class Mprod:
    @staticmethod
    def pick(rng, S):
        c = S.objs(is_t)
        if not c:
            return None
        x = rng.choice(c)
        d = len(x.obj.N)
        if rng.random() < 0.5:
            return [x.sid], {'mode': rng.randint(0, d - 1), 'rows': rng.randint(1, 4), 'vseed': rng.getrandbits(31)}
        modes = sorted(rng.sample(range(d), rng.randint(1, d)))
        return [x.sid], {'mode': modes, 'rows': [rng.randint(1, 4) for _ in modes], 'vseed': rng.getrandbits(31)}

    @staticmethod
    def run(S, objs, p):
        x = objs[0]
        g = gen.vgen(p['vseed'])
        N = gen.ints(x.N)
        if isinstance(p['mode'], list):
            mats = [gen.randn([r, N[m]], dtn(x), g) for r, m in zip(p['rows'], p['mode'])]
            return x.mprod(mats, p['mode'])
        return x.mprod(gen.randn([p['rows'], N[p['mode']]], dtn(x), g), p['mode'])


@op('apply_mask', 1.0)
class ApplyMask:
    @staticmethod
    def pick(rng, S):
        c = S.objs(is_t)
        if not c:
            return None
        x = rng.choice(c)
        N = gen.ints(x.obj.N)
        return [x.sid], {'idx': [[rng.randint(0, n - 1) for n in N] for _ in range(rng.randint(1, 4))]}

    @staticmethod
    def run(S, objs, p):
        return objs[0].apply_mask(torch.tensor(p['idx'], dtype=torch.int64))


# --------------------------------------------------------------------------
# iterative routines with operands and initial guesses from the heap

def _guess(rng, S, N, dtype, prob=0.7):
    """An initial guess from the heap: a TT tensor with the right N and dtype."""
    if rng.random() > prob:
        return None
    c = S.objs(lambda y: is_t(y) and dt_of(y) == dtype and gen.ints(y.N) == list(N))
    return rng.choice(c) if c else None


@op('fast_matvec', 3.0)
class FastMatvec:
    @staticmethod
    def pick(rng, S):
        c = S.objs(is_m)
        if not c:
            return None
        A = rng.choice(c)
        xs = S.objs(lambda y: is_t(y) and dt_of(y) == dt_of(A.obj) and gen.ints(y.N) == gen.ints(A.obj.N))
        if not xs:
            return None
        x = rng.choice(xs)
        g = _guess(rng, S, gen.ints(A.obj.M), dt_of(A.obj))
        args = [A.sid, x.sid] + ([g.sid] if g else [])
        return args, {'guess': g is not None, 'nswp': rng.choice([1, 2, 4, 20]), 'eps': rng.choice([1e-10, 1e-4])}

    @staticmethod
    def run(S, objs, p):
        return objs[0].fast_matvec(objs[1], eps=p['eps'], initial=objs[2] if p['guess'] else None, nswp=p['nswp'], use_cpp=False)


@op('dmrg_hadamard', 3.0)
class DmrgHadamard:
    @staticmethod
    def pick(rng, S):
        c = S.objs(is_t)
        if not c:
            return None
        x = rng.choice(c)
        y = _partner(rng, S, x.obj, True, 'T')
        if y is None:
            return None
        g = _guess(rng, S, gen.ints(x.obj.N), dt_of(x.obj))
        return [x.sid, y.sid] + ([g.sid] if g else []), {'guess': g is not None, 'nswp': rng.choice([1, 2, 4, 20]), 'eps': rng.choice([1e-10, 1e-4])}

    @staticmethod
    def run(S, objs, p):
        return torchtt.dmrg_hadamard(objs[0], objs[1], z0=objs[2] if p['guess'] else None, nswp=p['nswp'], eps=p['eps'], use_cpp=False)


@op('amen_mv', 1.2)
class AmenMv:
    @staticmethod
    def pick(rng, S):
        c = S.objs(lambda a: is_m(a) and not dt_of(a).is_complex)
        if not c:
            return None
        A = rng.choice(c)
        xs = S.objs(lambda y: is_t(y) and dt_of(y) == dt_of(A.obj) and gen.ints(y.N) == gen.ints(A.obj.N))
        if not xs:
            return None
        x = rng.choice(xs)
        g = _guess(rng, S, gen.ints(A.obj.M), dt_of(A.obj))
        return [A.sid, x.sid] + ([g.sid] if g else []), {'guess': g is not None, 'nswp': rng.choice([1, 2, 5]), 'eps': rng.choice([1e-10, 1e-4])}

    @staticmethod
    def run(S, objs, p):
        return torchtt.amen_mv(objs[0], objs[1], nswp=p['nswp'], x0=objs[2] if p['guess'] else None, eps=p['eps'], use_cpp=False)


@op('amen_mm', 1.2)
class AmenMm:
    @staticmethod
    def pick(rng, S):
        c = S.objs(lambda a: is_m(a) and not dt_of(a).is_complex)
        if not c:
            return None
        A = rng.choice(c)
        Bs = S.objs(lambda y: is_m(y) and dt_of(y) == dt_of(A.obj) and gen.ints(y.M) == gen.ints(A.obj.N))
        if not Bs:
            return None
        B = rng.choice(Bs)
        gs = S.objs(lambda y: is_m(y) and dt_of(y) == dt_of(A.obj) and gen.ints(y.M) == gen.ints(A.obj.M) and gen.ints(y.N) == gen.ints(B.obj.N))
        g = rng.choice(gs) if gs and rng.random() < 0.7 else None
        return [A.sid, B.sid] + ([g.sid] if g else []), {'guess': g is not None, 'nswp': rng.choice([1, 2, 5]), 'eps': rng.choice([1e-10, 1e-4])}

    @staticmethod
    def run(S, objs, p):
        return torchtt.amen_mm(objs[0], objs[1], nswp=p['nswp'], X0=objs[2] if p['guess'] else None, eps=p['eps'])


@op('amen_solve', 2.0)
class AmenSolve:
    @staticmethod
    def pick(rng, S):
        c = S.objs(lambda a: is_m(a) and gen.ints(a.M) == gen.ints(a.N) and not dt_of(a).is_complex)
        if not c:
            return None
        A = rng.choice(c)
        bs = S.objs(lambda y: is_t(y) and dt_of(y) == dt_of(A.obj) and gen.ints(y.N) == gen.ints(A.obj.N))
        if not bs:
            return None
        b = rng.choice(bs)
        g = _guess(rng, S, gen.ints(A.obj.N), dt_of(A.obj))
        ls = rng.choice([1, 2])
        if any(float(c.detach().abs().max()) == 0.0 for c in b.obj.cores if c.numel()):
            # a right-hand side that is exactly zero makes BiCGSTAB_reset spin forever in its search for a shadow
            # residual (while dot(r, r0p) == 0); that hang is outside C05/C06 and only burns the step alarm
            ls = 1
        return [A.sid, b.sid] + ([g.sid] if g else []), {
            'guess': g is not None, 'nswp': rng.choice([1, 2, 3]), 'eps': rng.choice([1e-8, 1e-4]),
            'prec': rng.choice([None, None, 'c', 'r']), 'max_full': rng.choice([0, 500]), 'ls': ls,
            'kick2': rng.choice([0, 0, 1]), 'trunc': rng.choice(['res', 'res', 'fro']), 'single': rng.random() < 0.1}

    @staticmethod
    def run(S, objs, p):
        return torchtt.solvers.amen_solve(objs[0], objs[1], nswp=p['nswp'], x0=objs[2] if p['guess'] else None, eps=p['eps'],
                                          max_full=p['max_full'], local_solver=p['ls'], local_iterations=6, resets=1,
                                          preconditioner=p['prec'], use_cpp=False, verbose=False, kick2=p.get('kick2', 0),
                                          trunc_norm=p.get('trunc', 'res'), use_single_precision=p.get('single', False))


@op('divide', 1.2)
class Divide:
    @staticmethod
    def pick(rng, S):
        c = S.objs(lambda a: is_t(a) and not dt_of(a).is_complex)
        if not c:
            return None
        x = rng.choice(c)
        y = _partner(rng, S, x.obj, True, 'T')
        if y is None:
            return None
        mode = rng.choice(['ew', 'ew', 'ew_s', 'op', 'rdiv'])
        if mode in ('op', 'rdiv') and (dense_numel(x.obj) > 64 or len(x.obj.N) > 4 or dt_of(x.obj) != torch.float64):
            # the operators run 50 sweeps at eps=1e-12 with rank cap 500: on larger operands one call takes tens of
            # seconds of LAPACK time, which no deterministic budget can bound; keep them to small operands
            mode = 'ew'
        g = _guess(rng, S, gen.ints(x.obj.N), dt_of(x.obj)) if mode.startswith('ew') else None
        p = {'mode': mode, 'guess': g is not None, 'nswp': rng.choice([1, 2]), 'eps': rng.choice([1e-8, 1e-4]), 'prec': rng.choice([None, 'c'])}
        p.update(pick_scalar(rng, zero_ok=False))
        return [x.sid, y.sid] + ([g.sid] if g else []), p

    @staticmethod
    def run(S, objs, p):
        x, y = objs[0], objs[1]
        g = objs[2] if p['guess'] else None
        if p['mode'] == 'ew':
            return torchtt.elementwise_divide(x, y, eps=p['eps'], starting_tensor=g, nswp=p['nswp'], local_iterations=5, resets=1, preconditioner=p['prec'])
        if p['mode'] == 'ew_s':
            return torchtt.elementwise_divide(float(p['sv']), y, eps=p['eps'], starting_tensor=g, nswp=p['nswp'], local_iterations=5, resets=1, preconditioner=p['prec'])
        if p['mode'] == 'op':
            return x / y
        return scalar_of(p, y) / y


@op('cross', 1.5)
class Cross:
    @staticmethod
    def pick(rng, S):
        c = S.objs(lambda a: is_t(a) and dt_of(a) == torch.float64 and len(a.N) >= 2)
        if not c:
            return None
        x = rng.choice(c)
        mode = rng.choice(['dmrg_cross', 'fi_uni', 'fi_multi'])
        g = _guess(rng, S, gen.ints(x.obj.N), torch.float64, 0.8)
        return [x.sid] + ([g.sid] if g else []), {'mode': mode, 'guess': g is not None, 'nswp': rng.choice([1, 2]), 'eps': 1e-6}

    @staticmethod
    def run(S, objs, p):
        x = objs[0]
        g = objs[1] if p['guess'] else None
        N = gen.ints(x.N)
        if p['mode'] == 'dmrg_cross':
            f = lambda I: 1.0 / (2.0 + torch.sum(I.to(torch.float64), 1))
            return torchtt.interpolate.dmrg_cross(f, N, eps=p['eps'], nswp=p['nswp'], x_start=g)
        if p['mode'] == 'fi_uni':
            return torchtt.interpolate.function_interpolate(lambda v: v * v + 1.0, x, eps=p['eps'], start_tens=g, nswp=p['nswp'])
        others = [e.obj for e in S.objs(lambda y: is_t(y) and dt_of(y) == torch.float64 and gen.ints(y.N) == N)]
        xs = [(others[k % len(others)] if others else x) for k in range(len(N))]
        xs[0] = x
        return torchtt.interpolate.function_interpolate(lambda v: torch.sum(v, 1) + 1.0, xs, eps=p['eps'], start_tens=g, nswp=p['nswp'])


@op('manifold', 1.0)
class Manifold:
    @staticmethod
    def pick(rng, S):
        c = S.objs(lambda a: not dt_of(a).is_complex and len(a.N) >= 2)
        if not c:
            return None
        x = rng.choice(c)
        mode = rng.choice(['proj', 'grad'])
        if mode == 'proj':
            z = _partner(rng, S, x.obj, True)
            if z is None:
                return None
            return [x.sid, z.sid], {'mode': 'proj'}
        return [x.sid], {'mode': 'grad'}

    @staticmethod
    def run(S, objs, p):
        if p['mode'] == 'proj':
            return torchtt.manifold.riemannian_projection(objs[0], objs[1])
        x = objs[0]
        return torchtt.manifold.riemannian_gradient(x, lambda t: (t * t).sum() if True else None)


# --------------------------------------------------------------------------
# documented in-place operations and the hostile caller

@op('set_core', 3.0, inplace=True)
class SetCore:
    @staticmethod
    def pick(rng, S):
        if not S.entries:
            return None
        x = rng.choice(list(S.entries.values()))
        o = x.obj
        d = len(o.N)
        k = rng.randint(0, d - 1) if rng.random() < 0.85 else rng.choice([-1, d, rng.randint(-d, -1), rng.randint(-d, -1)])
        return [x.sid], {'k': k, 'n': rng.randint(1, 4), 'm': rng.randint(1, 4), 'keep': rng.random() < 0.4,
                         'badrank': rng.random() < 0.1, 'vseed': rng.getrandbits(31),
                         # a core of a kind that is rejected only late (numpy array, wrong dtype, wrong number of dims)
                         'bad_kind': rng.choice([None] * 8 + ['numpy', 'list', 'ndim']),
                         # for a negative index: ranks taken from the rank list at the *literal* negative positions
                         # (R has one entry more than there are cores, so R[k] is then the pair of the next position)
                         'neg_literal': rng.random() < 0.5}

    @staticmethod
    def run(S, objs, p):
        x = objs[0]
        k = p['k']
        kk = min(max(k, 0), len(x.cores) - 1)
        c = x.cores[kk]
        r0, r1 = int(c.shape[0]) + (1 if p['badrank'] else 0), int(c.shape[-1])
        if k < 0 and -k <= len(x.cores):
            R = gen.ints(x.R)
            if p.get('neg_literal'):
                r0, r1 = R[k], R[k + 1]
            else:
                r0, r1 = R[len(x.cores) + k], R[len(x.cores) + k + 1]
        g = gen.vgen(p['vseed'])
        if x.is_ttm:
            m, n = (int(c.shape[1]), int(c.shape[2])) if p['keep'] else (p['m'], p['n'])
            new = gen.randn([r0, m, n, r1], dtn(x), g)
        else:
            n = int(c.shape[1]) if p['keep'] else p['n']
            new = gen.randn([r0, n, r1], dtn(x), g)
        bk = p.get('bad_kind')
        if bk == 'numpy':
            new = new.numpy()
        elif bk == 'list':
            new = new.tolist()
        elif bk == 'ndim':
            new = new.reshape(list(new.shape) + [1])
        x.set_core(k, new)
        return None


@op('reduce_dims', 2.0, inplace=True)
class ReduceDims:
    @staticmethod
    def pick(rng, S):
        c = S.objs(lambda a: 1 in gen.ints(a.N))
        if not c and rng.random() < 0.7:
            return None
        c = c or list(S.entries.values())
        if not c:
            return None
        x = rng.choice(c)
        d = len(x.obj.N)
        excl = sorted(rng.sample(range(d), rng.randint(0, 1))) if rng.random() < 0.3 else None
        return [x.sid], {'exclude': excl, 'bad_kind': rng.choice([None] * 8 + ['int', 'none'])}

    @staticmethod
    def run(S, objs, p):
        if p.get('bad_kind') == 'int':
            objs[0].reduce_dims(1)          # a bare index instead of a list: rejected (TypeError) only at a singleton mode
        elif p.get('bad_kind') == 'none':
            objs[0].reduce_dims(None)
        elif p['exclude'] is None:
            objs[0].reduce_dims()
        else:
            objs[0].reduce_dims(p['exclude'])
        return None


@op('watch', 1.0, inplace=True)
class Watch:
    @staticmethod
    def pick(rng, S):
        c = S.objs(lambda a: dt_of(a).is_floating_point or dt_of(a).is_complex)
        if not c:
            return None
        x = rng.choice(c)
        d = len(x.obj.N)
        return [x.sid], {'o': rng.choice(['watch', 'watch_idx', 'unwatch', 'unwatch']), 'idx': sorted(rng.sample(range(d), rng.randint(1, d)))}

    @staticmethod
    def run(S, objs, p):
        x = objs[0]
        if p['o'] == 'watch':
            torchtt.grad.watch(x)
        elif p['o'] == 'watch_idx':
            torchtt.grad.watch(x, p['idx'])
        else:
            torchtt.grad.unwatch(x)
        return None


@op('grad', 1.0, inplace=True)
class Grad:
    """watch -> scalar expression -> grad -> unwatch (the documented AD workflow; only requires_grad/.grad of the
    watched object may change)."""
    @staticmethod
    def pick(rng, S):
        c = S.objs(lambda a: dt_of(a) == torch.float64 and is_t(a) and all(not k.requires_grad and k.grad_fn is None for k in a.cores))
        if not c:
            return None
        x = rng.choice(c)
        y = _partner(rng, S, x.obj, True, 'T')
        return [x.sid] + ([y.sid] if y is not None else []), {'expr': rng.choice(['dot', 'norm', 'sum']), 'list': rng.random() < 0.3}

    @staticmethod
    def run(S, objs, p):
        x = objs[0]
        y = objs[1] if len(objs) > 1 else x
        torchtt.grad.watch(x)
        try:
            if p['expr'] == 'dot':
                val = torchtt.dot(x, y.detach() if y is not x else x)
            elif p['expr'] == 'norm':
                val = (x - y.detach()).norm(True) if y is not x else x.norm(True)
            else:
                val = (x * x).sum()
            if p['list']:
                g = torchtt.grad.grad_list(val, [x])
            else:
                g = torchtt.grad.grad(val, x)
        finally:
            torchtt.grad.unwatch(x)
            for c in x.cores:
                c.grad = None
        return None


@op('hostile', 2.0)
class Hostile:
    """Environment action: a caller scribbles on the lists returned by x.N, x.M, x.R
    (they are documented as read-only copies)."""
    @staticmethod
    def pick(rng, S):
        if not S.entries:
            return None
        x = rng.choice(list(S.entries.values()))
        return [x.sid], {'what': rng.choice(['N', 'R', 'M', 'all'])}

    @staticmethod
    def run(S, objs, p):
        x = objs[0]
        names = ['N', 'R', 'M'] if p['what'] == 'all' else [p['what']]
        for nm in names:
            if nm == 'M' and not x.is_ttm:
                continue
            lst = getattr(x, nm)
            for i in range(len(lst)):
                lst[i] = 97
            lst.append(13)
            del lst[0]
        return None


@op('drop', 0.0)
class Drop:
    @staticmethod
    def pick(rng, S):
        return None

    @staticmethod
    def run(S, objs, p):
        return None


# --------------------------------------------------------------------------
# executing one step

def outcome_class(result, exc):
    if exc is not None:
        return 'exc:' + type(exc).__name__
    if isinstance(result, TT):
        return 'TT'
    if isinstance(result, (list, tuple)):
        return 'list'
    if torch.is_tensor(result):
        return 'tensor'
    if result is None:
        return 'none'
    return type(result).__name__


def result_tts(result):
    if isinstance(result, TT):
        return [result]
    if isinstance(result, (list, tuple)):
        return [r for r in result if isinstance(r, TT)][:3]
    return []


class Machine:
    """Executes step descriptors against a heap and evaluates the oracles."""

    def __init__(self, res, log):
        self.S = Heap()
        self.res = res
        self.log = log
        self.viol = []
        self.trace = []          # executed step descriptors (the replay file)
        self.linecount = {}      # op name -> line events seen (for observer placement)

    # -- oracles ------------------------------------------------------------
    def _report(self, prop, oracle, opname, field, msg):
        v = core.violation(prop, oracle, opname, field, msg, None)
        v['at'] = len(self.trace)
        self.viol.append(v)
        self.log.add('VIOL', prop, oracle, opname, field)

    def _oracles_existing(self, opname, targets, phase):
        dead = []
        for sid, e in list(self.S.entries.items()):
            if any(e.obj is t for t in targets):
                continue
            # both oracles are evaluated on every entry: a stale N after a hostile write is a C06 event (the object
            # changed) *and* a C05 event (it no longer describes its cores)
            r = check_unchanged(e.obj, e.snap)
            if r is not None:
                self._report('C06', 'UNCHANGED' + phase, opname, r[0], 'object created at step %s: %s' % (sid, r[1]))
                dead.append(sid)
            r = check_wf(e.obj)
            if r is not None:
                self._report('C05', 'WF' + phase, opname, r[0], 'object created at step %s: %s' % (sid, r[1]))
                if sid not in dead:
                    dead.append(sid)
        for sid in dead:
            self.S.entries.pop(sid, None)

    def step(self, st):
        S = self.S
        opc = OPS[st['op']]
        name = st['op']
        if name == 'drop':
            for a in st['args']:
                S.entries.pop(a, None)
            self.trace.append(st)
            self.log.add('drop', st['args'])
            return 'drop'
        try:
            ents = [S.entries[a] for a in st['args']]
        except KeyError:
            self.log.add('skip', st['sid'], name)
            return 'skipped'
        objs = [e.obj for e in ents]
        self.trace.append(st)
        targets = [objs[0]] if opc.inplace else []
        akey = tuple(gen.struct(o) for o in objs)
        seams.seed_global(st['tseed'])
        result = None
        exc = None
        obs = st.get('obs')
        if obs is None and name in BUDGET_OPS:
            obs = []        # run under the line observer anyway: it carries the deterministic budget
        budget = LINE_BUDGET if name in BUDGET_OPS else None
        flt = st.get('svdfault')
        sf = None
        if flt is not None:
            # S2 layered on the history: the primary SVD backend fails at planned call indices inside this step; the
            # step then either recovers through the numpy fallback or raises - both are outcomes, the oracles are the same
            sf = seams.SVDFaults(primary=flt.get('P', ()), all_primary=flt.get('all', False))
            sf.__enter__()
        try:
            with step_alarm():
                if obs is not None:
                    lo = seams.LineObserver(obs, lambda k: self._oracles_existing(name, targets, '@line'), max_lines=budget,
                                            on_budget=lambda: StepTimeout('step exceeded its budget of %d line events' % LINE_BUDGET))
                    try:
                        with lo:
                            result = opc.run(S, objs, st['p'])
                        # only a step that returned (or raised by itself) has a meaningful line count; the point at which
                        # the alarm interrupts a step that never returns depends on the wall clock and must not leak
                        # into the log or into the generation of later steps
                        self.linecount[name] = lo.count
                        self.log.add('obs', lo.count, lo.fired)
                    except StepTimeout:
                        raise
                    except Exception:
                        self.linecount[name] = lo.count
                        self.log.add('obs', lo.count, lo.fired)
                        raise
                    finally:
                        core.bump(self.res['stats'], 'fault.preempt_points_fired', lo.fired)
                        core.bump(self.res['stats'], 'observed_steps')
                else:
                    result = opc.run(S, objs, st['p'])
        except Exception as e:
            exc = e
            if isinstance(e, StepTimeout):
                core.bump(self.res['stats'], 'probe.step_timeout')
                if 'budget' not in str(e):
                    # the wall-clock backstop fired: this outcome depends on the machine load (it should never happen:
                    # the slowest legitimate step measured takes ~10 s, the backstop is 120 s)
                    core.bump(self.res['stats'], 'probe.step_wall_clock_timeout')
        finally:
            if sf is not None:
                sf.__exit__(None, None, None)
                core.bump(self.res['stats'], 'fault.svd_primary_fired', sf.fired_primary)
                core.bump(self.res['stats'], 'svd.fallback_completed', sf.fallback_ok)
                if sf.fired_primary:
                    core.bump(self.res['stats'], 'steps_with_svd_fault')
                if not isinstance(exc, StepTimeout):
                    self.log.add('svdfault', sf.n_primary, sf.fired_primary)
        oc = outcome_class(result, exc)
        core.bump(self.res['stats'], 'steps')
        core.bump(self.res['stats'], 'op.' + name)
        if exc is not None:
            core.bump(self.res['stats'], 'exc.' + name)
            core.bump(self.res['stats'], 'probe.exception_in_history')
        # oracles on what existed before the step
        self._oracles_existing(name, targets, '')
        # in-place targets: must be well formed; model is updated
        for t in targets:
            for sid, e in list(S.entries.items()):
                if e.obj is t:
                    r = check_wf(t, do_full=True)
                    if r is not None:
                        self._report('C05', 'WF-inplace', name, r[0], 'target created at step %s: %s' % (sid, r[1]))
                        S.entries.pop(sid, None)
                    else:
                        e.snap = take_snap(t)
        # results
        shas = []
        for k, r in enumerate(result_tts(result)):
            rid = st['sid'] if k == 0 else '%s.%d' % (st['sid'], k)
            bad = check_wf(r, do_full=True)
            if bad is not None:
                self._report('C05', 'WF-result', name, bad[0], bad[1])
                continue
            alias = False
            for sid, e in S.entries.items():
                if r.cores is e.obj.cores:
                    self._report('C06', 'NO-LIST-ALIAS', name, 'cores_list', 'result shares its cores list with the object created at step %s' % sid)
                    alias = True
                    break
            # an aliased result is reported (C06) and still admitted: what the shared list leads to later (an in-place
            # operation on one object silently changing the other) is then visible to the C05 oracle as well
            try:
                shas.append(gen.cores_sha(r.cores))
            except Exception:
                shas.append('?')
            if store(r) <= MAX_STORE:
                S.add(rid, r)
        if torch.is_tensor(result):
            try:
                shas.append(gen.cores_sha([result]))
            except Exception:
                shas.append('?')
        self.log.add('step', st['sid'], name, st['args'], oc, shas)
        self.res['keys'].append('%s|%s|%s' % (name, akey, oc))
        return oc


def make_step(rng, M, sid):
    """Draw one step for the current heap (None if nothing applicable)."""
    S = M.S
    if len(S.entries) > MAX_HEAP:
        victim = rng.choice(list(S.entries.keys())[:-2])
        return {'sid': sid, 'op': 'drop', 'args': [victim], 'p': {}, 'tseed': 0}
    names = [n for n in OPS if OPS[n].weight > 0]
    weights = [OPS[n].weight for n in names]
    if len(S.entries) < 3:
        name = 'create'
    else:
        name = None
    for _ in range(12):
        nm = name or rng.choices(names, weights)[0]
        name = None
        pk = OPS[nm].pick(rng, S)
        if pk is None:
            continue
        args, p = pk
        st = {'sid': sid, 'op': nm, 'args': list(args), 'p': p, 'tseed': rng.getrandbits(31)}
        return st
    return None


SVD_OPS = ('create', 'round', 'reshape', 'permute', 'to_qtt', 'fast_matvec', 'dmrg_hadamard', 'amen_mv', 'amen_mm', 'amen_solve',
           'divide', 'cross')


def run_history(rng, length, res, log, observe_prob=0.3, fault_prob=0.12):
    M = Machine(res, log)
    sid = 0
    n = 0
    while n < length:
        st = make_step(rng, M, str(sid))
        sid += 1
        if st is None:
            continue
        if st['op'] in SVD_OPS and rng.random() < fault_prob:
            st['svdfault'] = {'all': True} if rng.random() < 0.3 else {'P': sorted(set(rng.randint(0, 12) for _ in range(rng.randint(1, 3))))}
        if st['op'] != 'drop' and st['op'] != 'create' and rng.random() < observe_prob:
            L = M.linecount.get(st['op'])
            if L is None or L < 1:
                st['obs'] = []
            else:
                st['obs'] = sorted(set(rng.randint(1, L) for _ in range(rng.randint(1, 3))))
        M.step(st)
        if st['op'] != 'drop':
            n += 1
    return M


def replay_history(trace, res, log):
    M = Machine(res, log)
    for st in trace:
        M.step(st)
    return M
