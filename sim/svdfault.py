"""
SVD fault plans (DESIGN.md 3.4) and the generic "fault run must agree with
the fault-free run" driver used by C01, C02, C10 (and layered on C11-C14).

A plan is {'P': [primary call indices that fail], 'Q': [numpy-fallback call
indices that fail too], 'all': bool (every primary call fails)}.
"""
import torch

from sim import core, gen, seams


def enumerate_plans(rng, n, max_single=None):
    """Exhaustive single faults, the all-fail plan, two seeded subsets and one
    double fault, for a call that makes n primary SVD calls when fault-free."""
    plans = []
    if n <= 0:
        return plans
    singles = list(range(n))
    if max_single is not None and n > max_single:
        singles = sorted(rng.sample(singles, max_single))
    for k in singles:
        plans.append({'P': [k], 'Q': [], 'all': False, 'kind': 'single'})
    plans.append({'P': [], 'Q': [], 'all': True, 'kind': 'all'})
    if n >= 2:
        for _ in range(2):
            m = rng.randint(2, n)
            plans.append({'P': sorted(rng.sample(range(n), m)), 'Q': [], 'all': False, 'kind': 'subset'})
    k = rng.randrange(n)
    plans.append({'P': [k], 'Q': [0], 'all': False, 'kind': 'double'})
    return plans


def run_with_plan(call, plan):
    """Execute call() under the plan.  Returns (result, exception, SVDFaults)."""
    f = seams.SVDFaults(primary=plan.get('P', ()), secondary=plan.get('Q', ()), all_primary=plan.get('all', False))
    result = None
    exc = None
    with f:
        try:
            result = call()
        except Exception as e:
            exc = e
    return result, exc, f


def branch_stats(f, stats):
    """Which branch of torchtt's SVD() wrapper each primary call came from:
    the wrapper passes the matrix as is when rows < 10*cols ('wide') and
    transposed otherwise ('tall'), so a tall call arrives with cols >= 10*rows... the
    shape seen here is the one passed to torch.linalg.svd."""
    for sh in f.shapes:
        if len(sh) == 2:
            core.bump(stats, 'svd.calls')
    core.bump(stats, 'fault.svd_primary_fired', f.fired_primary)
    core.bump(stats, 'fault.svd_fallback_fired', f.fired_secondary)
    core.bump(stats, 'svd.fallback_completed', f.fallback_ok)


def agree(a, b, scale, dtname, numel):
    """Dense agreement of a fault run with the fault-free run: within
    1e-9*scale + 10*u*scale*sqrt(numel)."""
    u = gen.UNIT_ROUNDOFF[dtname]
    tol = 1e-9 * scale + 10 * u * scale * (numel ** 0.5)
    if dtname in ('f32', 'c64'):
        tol = max(tol, 1e-4 * scale)
    d = gen.fro(a - b)
    return d <= tol, d, tol


def min_relgap(ref, N, M, R):
    """Smallest gap sigma_r - sigma_{r+1} over the bonds at which a TT with ranks R truncates the
    tensor `ref` (dense, layout N1..Nd, or M1..Md,N1..Nd for operators); inf when no bond truncates.  A truncated SVD is
    only determined up to roundoff / gap, so two correct backends may differ by that much."""
    d = len(N)
    T = ref.detach().resolve_conj()
    T = T.to(torch.complex128 if T.is_complex() else torch.float64)
    if M is not None:
        T = T.reshape(list(M) + list(N)).permute([k // 2 + (d if k % 2 else 0) for k in range(2 * d)])
        sizes = [int(m) * int(n) for m, n in zip(M, N)]
    else:
        sizes = [int(n) for n in N]
    T = T.reshape(sizes)
    g = float('inf')
    for k in range(1, d):
        rows = 1
        for v in sizes[:k]:
            rows *= v
        sv = torch.linalg.svdvals(T.reshape(rows, -1))
        r = int(R[k])
        if 0 < r < sv.shape[0]:
            g = min(g, float(sv[r - 1] - sv[r]))
    return g


def agree_conditioned(a, b, scale, dtname, ref, N, M, R, err0):
    """agree(), made sound for truncations that are not well conditioned.  Two correct SVD backends produce truncated
    factors that differ by roundoff * ||A|| / gap, where gap is the distance between the last kept and the first dropped
    singular value; the unfoldings the algorithm sees differ from those of the reference by at most the truncation error
    made so far (err0), so gap_eff = gap(reference) - 2*err0.  Returns (verdict, difference, tolerance) with verdict in
    {'ok', 'differs', 'ill-conditioned'}; the last one means the comparison says nothing and is skipped (counted)."""
    ok, d, tol = agree(a, b, scale, dtname, 1)
    if ok:
        return 'ok', d, tol
    gap = min_relgap(ref, N, M, R) - 2.0 * err0
    if not gap > 1e-3 * scale:
        return 'ill-conditioned', d, tol
    tol2 = tol * max(1.0, scale / gap)
    return ('ok' if d <= tol2 else 'differs'), d, tol2


def resolve_fractions(plan, count_call):
    """A plan may name its failing calls as fractions of the number of primary SVD calls the routine makes
    ({'frac': [0.0, 0.5, 0.97]}): that number is measured by a fault-free counting run (`count_call` must re-seed and
    re-create whatever the run consumes), so that late calls - the final truncation sweep, the last core - are failed
    as often as early ones, however long the run is."""
    if not plan or plan.get('frac') is None:
        return plan
    _, _, f0 = run_with_plan(count_call, {})
    n = f0.n_primary
    if n <= 0:
        return dict(plan, P=[])
    return dict(plan, P=sorted(set(min(n - 1, int(fr * n)) for fr in plan['frac'])), n_calls=n)
