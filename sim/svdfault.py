"""
SVD fault plans (DESIGN.md 3.4) and the generic "fault run must agree with
the fault-free run" driver used by C01, C02, C10 (and layered on C11-C14).

A plan is {'P': [primary call indices that fail], 'Q': [numpy-fallback call
indices that fail too], 'all': bool (every primary call fails)}.
"""
import torch

from sim import core, gen, seams


def enumerate_plans(rng, n, max_single=None):
    """Exhaustive single faults, the all-fail plan, two seeded subsets and one
    double fault, for a call that makes n primary SVD calls when fault-free."""
    plans = []
    if n <= 0:
        return plans
    singles = list(range(n))
    if max_single is not None and n > max_single:
        singles = sorted(rng.sample(singles, max_single))
    for k in singles:
        plans.append({'P': [k], 'Q': [], 'all': False, 'kind': 'single'})
    plans.append({'P': [], 'Q': [], 'all': True, 'kind': 'all'})
    if n >= 2:
        for _ in range(2):
            m = rng.randint(2, n)
            plans.append({'P': sorted(rng.sample(range(n), m)), 'Q': [], 'all': False, 'kind': 'subset'})
    k = rng.randrange(n)
    plans.append({'P': [k], 'Q': [0], 'all': False, 'kind': 'double'})
    return plans


def run_with_plan(call, plan):
    """Execute call() under the plan.  Returns (result, exception, SVDFaults)."""
    f = seams.SVDFaults(primary=plan.get('P', ()), secondary=plan.get('Q', ()), all_primary=plan.get('all', False))
    result = None
    exc = None
    with f:
        try:
            result = call()
        except Exception as e:
            exc = e
    return result, exc, f


def branch_stats(f, stats):
    """Which branch of torchtt's SVD() wrapper each primary call came from:
    the wrapper passes the matrix as is when rows < 10*cols ('wide') and
    transposed otherwise ('tall'), so a tall call arrives with cols >= 10*rows... the
    shape seen here is the one passed to torch.linalg.svd."""
    for sh in f.shapes:
        if len(sh) == 2:
            core.bump(stats, 'svd.calls')
    core.bump(stats, 'fault.svd_primary_fired', f.fired_primary)
    core.bump(stats, 'fault.svd_fallback_fired', f.fired_secondary)
    core.bump(stats, 'svd.fallback_completed', f.fallback_ok)


def agree(a, b, scale, dtname, numel):
    """Dense agreement of a fault run with the fault-free run: within
    1e-9*scale + 10*u*scale*sqrt(numel)."""
    u = gen.UNIT_ROUNDOFF[dtname]
    tol = 1e-9 * scale + 10 * u * scale * (numel ** 0.5)
    if dtname in ('f32', 'c64'):
        tol = max(tol, 1e-4 * scale)
    d = gen.fro(a - b)
    return d <= tol, d, tol


def resolve_fractions(plan, count_call):
    """A plan may name its failing calls as fractions of the number of primary SVD calls the routine makes
    ({'frac': [0.0, 0.5, 0.97]}): that number is measured by a fault-free counting run (`count_call` must re-seed and
    re-create whatever the run consumes), so that late calls - the final truncation sweep, the last core - are failed
    as often as early ones, however long the run is."""
    if not plan or plan.get('frac') is None:
        return plan
    _, _, f0 = run_with_plan(count_call, {})
    n = f0.n_primary
    if n <= 0:
        return dict(plan, P=[])
    return dict(plan, P=sorted(set(min(n - 1, int(fr * n)) for fr in plan['frac'])), n_calls=n)
