"""
The seams the simulator owns (DESIGN.md section 1):

 S1  global torch PRNG           -> seeded_call()
 S2  fallible SVD backend        -> SVDFaults
 S4  pre-emption inside a call   -> LineObserver (sys.settrace)
 S5  file I/O of save/load       -> SimFS / StorageProxy

No source line of /repo is changed: every seam is reached by rebinding a
module attribute while a simulated call runs, and restored afterwards.
"""
import io
import os
import sys
import errno

import numpy as np
import torch

REPO = os.environ.get('VERIF_REPO', '/repo')
_TT_DIR = os.path.join(os.path.realpath(REPO), 'torchtt') + os.sep


def seed_global(tseed):
    """S1: the generator the system under test reads."""
    torch.manual_seed(int(tseed))


# --------------------------------------------------------------------------
# S2  SVD failure schedule

class SVDFaults:
    """Context manager.  While active, torch.linalg.svd raises LinAlgError at
    the planned call indices (counted from entry) and numpy.linalg.svd raises
    at the planned indices of *its* call counter (double fault).  Counts what
    actually fired, and which branch of torchtt's SVD() wrapper the call came
    from (wide: rows < 10*cols; tall: the transposed branch)."""

    def __init__(self, primary=(), secondary=(), all_primary=False):
        self.primary = set(primary)
        self.secondary = set(secondary)
        self.all_primary = all_primary
        self.n_primary = 0
        self.n_secondary = 0
        self.fired_primary = 0
        self.fired_secondary = 0
        self.fallback_ok = 0
        self.shapes = []

    def __enter__(self):
        self._t = torch.linalg.svd
        self._n = np.linalg.svd
        me = self

        def t_svd(*a, **k):
            i = me.n_primary
            me.n_primary += 1
            try:
                me.shapes.append(tuple(a[0].shape))
            except Exception:
                pass
            if me.all_primary or i in me.primary:
                me.fired_primary += 1
                raise torch.linalg.LinAlgError('linalg.svd: (simulated) The algorithm failed to converge')
            return me._t(*a, **k)

        def n_svd(*a, **k):
            i = me.n_secondary
            me.n_secondary += 1
            if i in me.secondary:
                me.fired_secondary += 1
                raise np.linalg.LinAlgError('(simulated) SVD did not converge')
            r = me._n(*a, **k)
            me.fallback_ok += 1
            return r

        torch.linalg.svd = t_svd
        np.linalg.svd = n_svd
        return self

    def __exit__(self, *exc):
        torch.linalg.svd = self._t
        np.linalg.svd = self._n
        return False


# --------------------------------------------------------------------------
# S4  line-event observer

class LineObserver:
    """Counts 'line' trace events of frames whose code lives under
    /repo/torchtt and calls `callback(k)` when the running count reaches one of
    the planned indices.  This is exactly the view a second caller thread would
    have if the interpreter handed over the GIL at that line."""

    def __init__(self, points, callback, max_lines=None, on_budget=None):
        self.points = set(points)
        self.callback = callback
        self.count = 0
        self.fired = 0
        self._busy = False
        self.max_lines = max_lines      # deterministic step budget: raise on_budget() after this many line events
        self.on_budget = on_budget

    def _local(self, frame, event, arg):
        if event == 'line' and not self._busy:
            self.count += 1
            if self.max_lines is not None and self.count > self.max_lines:
                raise self.on_budget()
            if self.count in self.points:
                self._busy = True
                try:
                    self.fired += 1
                    self.callback(self.count)
                finally:
                    self._busy = False
        return self._local

    def _global(self, frame, event, arg):
        if event == 'call':
            fn = frame.f_code.co_filename
            if fn.startswith(_TT_DIR) or os.path.realpath(fn).startswith(_TT_DIR):
                return self._local
        return None

    def __enter__(self):
        self._old = sys.gettrace()
        sys.settrace(self._global)
        return self

    def __exit__(self, *exc):
        sys.settrace(self._old)
        return False


# --------------------------------------------------------------------------
# S5  simulated storage

class SimFile(io.BytesIO):
    """Write side of a simulated file.  `fail_at` = index of the write() call
    that raises ENOSPC (None: never).  When `commit_on_close` is set (files the
    library opens itself through the injected open()), closing makes the bytes
    written so far durable - exactly what closing a real file does."""

    def __init__(self, fs, path, fail_at=None, commit_on_close=False):
        super().__init__()
        self.fs = fs
        self.path = path
        self.fail_at = fail_at
        self.nwrites = 0
        self.failed = False
        self.commit_on_close = commit_on_close
        self._committed = False

    def close(self):
        if self.commit_on_close and not self._committed:
            self._committed = True
            self.fs.commit(self)
        super().close()

    def write(self, b):
        i = self.nwrites
        self.nwrites += 1
        if self.fail_at is not None and i == self.fail_at:
            self.failed = True
            self.fs.stats['fault.write_error'] = self.fs.stats.get('fault.write_error', 0) + 1
            raise OSError(errno.ENOSPC, 'No space left on device (simulated)')
        return super().write(b)


class SimFS:
    """dict path -> durable bytes.  A save whose write raised leaves the bytes
    written so far as the durable content (a torn file), exactly as
    open(path,'wb') followed by a failing write would."""

    def __init__(self):
        self.files = {}
        self.stats = {}
        self.next_fail = None     # write index to fail on the next open-for-write
        self.last_nwrites = None
        self.write_through = False

    def open_write(self, path):
        f = SimFile(self, path, self.next_fail)
        self.next_fail = None
        return f

    def commit(self, f):
        self.files[f.path] = f.getvalue()
        self.last_nwrites = f.nwrites
        if f.failed:
            self.stats['fault.torn_file_left'] = self.stats.get('fault.torn_file_left', 0) + 1
        if self.write_through and os.path.isdir(os.path.dirname(f.path)):
            # keep a real file with the durable content too, written the way open(path, 'wb') writes it (truncate,
            # then write), so that code which maps the file (torch.load(mmap=True)) sees what a real disk would show
            with open(f.path, 'wb') as fh:
                fh.write(self.files[f.path])

    def open_read(self, path):
        if path not in self.files:
            self.stats['fault.load_missing'] = self.stats.get('fault.load_missing', 0) + 1
            raise FileNotFoundError(errno.ENOENT, 'No such file (simulated)', path)
        return io.BytesIO(self.files[path])


class FaultyWriter:
    """Wraps a real file object that the library hands to torch.save: write() raises ENOSPC at the planned index,
    everything else is delegated."""

    def __init__(self, fs, f, fail_at):
        self._fs = fs
        self._f = f
        self._fail_at = fail_at
        self.nwrites = 0
        self.failed = False

    def write(self, b):
        i = self.nwrites
        self.nwrites += 1
        if self._fail_at is not None and i == self._fail_at:
            self.failed = True
            self._fs.stats['fault.write_error'] = self._fs.stats.get('fault.write_error', 0) + 1
            raise OSError(errno.ENOSPC, 'No space left on device (simulated)')
        return self._f.write(b)

    def __getattr__(self, name):
        return getattr(self._f, name)


class StorageProxy:
    """Stands in for the name `tn` inside torchtt._extras: every attribute is
    torch's, except save/load, which route *string paths* to the SimFS and
    then call the real torch.save / torch.load on the simulated file object."""

    def __init__(self, fs):
        object.__setattr__(self, '_fs', fs)

    def __getattr__(self, name):
        return getattr(torch, name)

    def save(self, obj, f, *a, **k):
        if isinstance(f, (str, os.PathLike)):
            sf = self._fs.open_write(str(f))
            try:
                return torch.save(obj, sf, *a, **k)
            finally:
                self._fs.commit(sf)
        if not isinstance(f, SimFile) and hasattr(f, 'write') and getattr(self._fs, 'wrap_file_objects', False):
            # a real file object opened by the library itself (os.fdopen of a mkstemp descriptor, ...): the planned
            # write fault is injected here, the bytes go to the real file
            self._fs.stats['probe.real_file_object_wrapped'] = self._fs.stats.get('probe.real_file_object_wrapped', 0) + 1
            w = FaultyWriter(self._fs, f, self._fs.next_fail)
            self._fs.next_fail = None
            try:
                return torch.save(obj, w, *a, **k)
            finally:
                self._fs.last_nwrites = w.nwrites
        return torch.save(obj, f, *a, **k)

    def load(self, f, *a, **k):
        if isinstance(f, (str, os.PathLike)):
            if str(f) not in self._fs.files and os.path.exists(str(f)):
                # the write side bypassed the seam (a refactor opened the file itself): fall back to the real file
                self._fs.stats['probe.storage_seam_bypassed_on_load'] = self._fs.stats.get('probe.storage_seam_bypassed_on_load', 0) + 1
                return torch.load(f, *a, **k)
            if k.get('mmap') and self._fs.write_through and os.path.exists(str(f)):
                # memory-mapped load needs a real file: the write-through copy holds the durable bytes
                self._fs.stats['probe.mmap_load'] = self._fs.stats.get('probe.mmap_load', 0) + 1
                if str(f) not in self._fs.files:
                    self._fs.open_read(str(f))
                return torch.load(str(f), *a, **k)
            return torch.load(self._fs.open_read(str(f)), *a, **k)
        return torch.load(f, *a, **k)


class OsProxy:
    """Stands in for the name `os` inside torchtt._extras (should the module use it): renames and removals of
    simulated files are applied to the SimFS and to its write-through copies; everything else is the real os."""

    def __init__(self, fs):
        object.__setattr__(self, '_fs', fs)

    def __getattr__(self, name):
        return getattr(os, name)

    def _mv(self, src, dst):
        src, dst = str(src), str(dst)
        fs = self._fs
        fs.stats['probe.os_rename_seen'] = fs.stats.get('probe.os_rename_seen', 0) + 1
        if src in fs.files:
            fs.files[dst] = fs.files.pop(src)
        if os.path.exists(src):
            os.replace(src, dst)
        elif src not in fs.files and dst not in fs.files:
            raise FileNotFoundError(errno.ENOENT, 'No such file (simulated)', src)

    def replace(self, src, dst, *a, **k):
        return self._mv(src, dst)

    def rename(self, src, dst, *a, **k):
        return self._mv(src, dst)

    def remove(self, path, *a, **k):
        path = str(path)
        fs = self._fs
        fs.stats['probe.os_remove_seen'] = fs.stats.get('probe.os_remove_seen', 0) + 1
        had = fs.files.pop(path, None) is not None
        if os.path.exists(path):
            os.remove(path)
        elif not had:
            raise FileNotFoundError(errno.ENOENT, 'No such file (simulated)', path)

    unlink = remove


class Storage:
    """Context manager installing the storage seam into torchtt._extras: the name `tn` (torch.save / torch.load with
    string paths), and - for code that opens or renames files itself - the names `open` and `os`."""

    def __init__(self, fs, root=None):
        self.fs = fs
        self.root = root

    def __enter__(self):
        import builtins
        import torchtt._extras as ex
        self._ex = ex
        self._old = ex.tn
        ex.tn = StorageProxy(self.fs)
        fs = self.fs
        root = self.root

        def sim_open(path, mode='r', *a, **k):
            p = str(path) if isinstance(path, (str, os.PathLike)) else None
            if p is not None and root and p.startswith(root) and any(c in mode for c in 'wax+'):
                fs.stats['probe.open_for_write_seen'] = fs.stats.get('probe.open_for_write_seen', 0) + 1
                f = SimFile(fs, p, fs.next_fail, commit_on_close=True)
                fs.next_fail = None
                if 'a' in mode and p in fs.files:
                    io.BytesIO.write(f, fs.files[p])
                return f
            return builtins.open(path, mode, *a, **k)

        self._had_open = 'open' in ex.__dict__
        self._old_open = ex.__dict__.get('open')
        ex.open = sim_open
        self._had_os = 'os' in ex.__dict__
        self._old_os = ex.__dict__.get('os')
        ex.os = OsProxy(fs)
        return self.fs

    def __exit__(self, *exc):
        ex = self._ex
        ex.tn = self._old
        if self._had_open:
            ex.open = self._old_open
        else:
            del ex.open
        if self._had_os:
            ex.os = self._old_os
        else:
            del ex.os
        return False


class CaptureFd1:
    """Captures everything written to file descriptor 1 (Python prints and C++ std::cout alike) into self.text."""

    def __enter__(self):
        import tempfile
        sys.stdout.flush()
        self._saved = os.dup(1)
        self._tmp = tempfile.TemporaryFile(mode='w+b')
        os.dup2(self._tmp.fileno(), 1)
        self.text = ''
        return self

    def __exit__(self, *exc):
        sys.stdout.flush()
        os.dup2(self._saved, 1)
        os.close(self._saved)
        self._tmp.seek(0)
        self.text = self._tmp.read().decode('utf-8', 'replace')
        self._tmp.close()
        return False
