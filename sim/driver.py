"""
Generic driver: batch run -> collect -> shrink -> known-findings -> replay
files -> evidence -> exit code.

Exit codes: 0 property held on everything explored (KNOWN-FINDING lines may be
printed); 1 at least one violation not listed in known_findings.json (a line
"VIOLATION property=<id> replay=<path>" per distinct class); 2 harness error
(never counted as a pass, never a VIOLATION line).
"""
import os
import sys
import json
import time
import argparse
import importlib
import subprocess
import collections

from sim import core


LAST_HIT = {'v': None}


def crashes(mod, desc, opts):
    """True when replaying desc kills a forked child with a signal."""
    sys.stdout.flush()
    pid = os.fork()
    if pid == 0:
        try:
            devnull = os.open(os.devnull, os.O_WRONLY)
            os.dup2(devnull, 2)
            mod.replay(desc, opts)
        finally:
            os._exit(0)
    _, status = os.waitpid(pid, 0)
    return os.WIFSIGNALED(status)


def shrink(mod, desc, cls, opts, budget_s=120, max_replays=400):
    """Greedy delta debugging on the recorded descriptor: accept any simpler
    candidate that still produces a violation of the same class."""
    t0 = time.time()
    n = 0
    if not hasattr(mod, 'shrink_candidates'):
        return desc, 0
    improved = True
    while improved and time.time() - t0 < budget_s and n < max_replays:
        improved = False
        for cand in mod.shrink_candidates(desc):
            if time.time() - t0 > budget_s or n >= max_replays:
                break
            n += 1
            if cls[1] == 'CRASH':
                if crashes(mod, cand, opts):
                    desc = cand
                    improved = True
                    break
                continue
            try:
                vs = mod.replay(cand, opts)
            except Exception:
                continue
            hit = [v for v in vs if core.vclass(v) == cls]
            if hit:
                desc = hit[0]['desc']
                LAST_HIT['v'] = hit[0]
                improved = True
                break
    return desc, n


def fresh_replay(prop, path):
    """Replay a file in a fresh interpreter; returns (exit code, stdout)."""
    env = dict(os.environ)
    env.pop('_VERIF_REEXEC', None)
    p = subprocess.run([sys.executable, os.path.join(core.VERIF, 'check.py'), prop, '--replay', path],
                       capture_output=True, text=True, env=env, timeout=900)
    return p.returncode, p.stdout


def do_replay(mod, path):
    core.init_torch()
    rp = core.read_replay(path)
    cls = tuple(rp['class'])
    if cls[1] == 'CRASH':
        # the recorded violation is a crash of the interpreter: replay it in a forked child
        if crashes(mod, rp['desc'], {}):
            print('REPLAY: reproduced class=%s (child killed by a signal)' % (list(cls),))
            print('VIOLATION property=%s replay=%s' % (mod.PROP, path))
            return 1
        print('REPLAY: violation not reproduced')
        return 0
    vs = mod.replay(rp['desc'], {})
    same = [v for v in vs if core.vclass(v) == cls]
    other = [v for v in vs if core.vclass(v) != cls and v['property'] == mod.PROP]
    for v in same:
        print('REPLAY: reproduced class=%s msg=%s' % (list(cls), v['msg']))
    for v in other:
        print('REPLAY: other violation class=%s msg=%s' % (list(core.vclass(v)), v['msg']))
    if hasattr(mod, 'last_digest'):
        print('REPLAY-DIGEST', mod.last_digest())
    if same:
        print('VIOLATION property=%s replay=%s' % (mod.PROP, path))
        return 1
    print('REPLAY: violation not reproduced')
    return 0


def main(modname, argv):
    mod = importlib.import_module(modname)
    ap = argparse.ArgumentParser()
    ap.add_argument('--tier', default=os.environ.get('VERIF_TIER', 'quick'))
    ap.add_argument('--runs', type=int, default=None)
    ap.add_argument('--start', type=int, default=0)
    ap.add_argument('--workers', type=int, default=int(os.environ.get('VERIF_WORKERS', str(min(16, os.cpu_count() or 1)))))
    ap.add_argument('--replay', default=None)
    ap.add_argument('--no-shrink', action='store_true')
    ap.add_argument('--no-evidence', action='store_true')
    ap.add_argument('--force-evidence', action='store_true', help='write evidence even when --runs/--start/--opt override the registered tier')
    ap.add_argument('--digests', default=None, help='write per-run digests to this file (determinism self-test)')
    ap.add_argument('--time-cap', type=float, default=None)
    ap.add_argument('--opt', action='append', default=[])
    a = ap.parse_args(argv)
    prop = mod.PROP
    if a.replay:
        return do_replay(mod, a.replay)
    tier = a.tier if a.tier in ('quick', 'thorough') else 'quick'
    seed = int(os.environ.get('VERIF_SEED', '0'))
    cfg = mod.TIERS[tier]
    n_runs = a.runs if a.runs is not None else cfg['runs']
    time_cap = a.time_cap if a.time_cap is not None else cfg.get('time_cap')
    opts = dict(cfg.get('opts', {}))
    for o in a.opt:
        k, _, v = o.partition('=')
        opts[k] = json.loads(v) if v else True
    core.init_torch()
    if hasattr(mod, 'prepare'):
        st = mod.prepare(opts)
        if st:
            print('HARNESS: %s' % st)
            return 2
    t0 = time.time()
    print('SEED %d property=%s tier=%s runs=%d workers=%d' % (seed, prop, tier, n_runs, a.workers))
    sys.stdout.flush()
    results, harness = core.run_batch(modname, prop, tier, seed, n_runs, a.workers, opts,
                                      chunk=cfg.get('chunk'), time_cap=time_cap,
                                      chunk_timeout=cfg.get('chunk_timeout', 900), start=a.start)
    for r in results:
        for h in r['harness']:
            harness.append('run %d: %s' % (r['i'], h))
    if a.digests:
        with open(a.digests, 'w') as f:
            for r in results:
                f.write('%d %s\n' % (r['i'], r['digest']))
    # ---- violations: group by class, keep first occurrence per class
    by_cls = collections.OrderedDict()
    n_viol = 0
    others = collections.Counter()
    for r in results:
        for v in r['viol']:
            if v['property'] != prop:
                others[v['property']] += 1
                continue
            n_viol += 1
            by_cls.setdefault(core.vclass(v), []).append((r['i'], v))
    known = core.load_known()
    new_lines = []
    known_lines = []
    t_shr = time.time()
    # within one class, occurrences that match a listed finding as they stand are set apart, so that a different
    # violation of the same class is still shrunk and reported on its own
    split = collections.OrderedDict()
    for cls, occ in by_cls.items():
        kn = [(i, v) for i, v in occ if core.match_known(v, known) is not None]
        un = [(i, v) for i, v in occ if core.match_known(v, known) is None]
        if kn:
            k = core.match_known(kn[0][1], known)
            path = core.write_replay(prop, seed, kn[0][0], kn[0][1], '-known-' + k['id'])
            known_lines.append('KNOWN-FINDING: property=%s %s [%s; %d occurrence(s); replay=%s]' % (prop, k['what'], k['id'], len(kn), path))
        if un:
            split[cls] = un
    for cls, occ in split.items():
        i, v = occ[0]
        desc = v['desc']
        nrep = 0
        LAST_HIT['v'] = None
        if not a.no_shrink and time.time() - t_shr < 600:
            try:
                desc, nrep = shrink(mod, desc, cls, opts)
            except Exception as e:
                harness.append('shrink failed: %r' % (e,))
        v2 = dict(LAST_HIT['v'] or v)      # the violation as produced by the minimised descriptor (message, extra)
        v2['desc'] = desc
        k = core.match_known(v2, known)
        if k is None and desc is not v['desc']:
            k = core.match_known(v, known)
        path = core.write_replay(prop, seed, i, v2, '-' + '-'.join(str(c) for c in cls[1:]).replace('@', '_at_').replace('/', '_').replace(':', '_'))
        if k is not None:
            known_lines.append('KNOWN-FINDING: property=%s %s [%s; %d occurrence(s); replay=%s]' % (prop, k['what'], k['id'], len(occ), path))
        else:
            # the replay file must reproduce the violation in a fresh interpreter; if the minimised one does not, fall
            # back to the unminimised descriptor (and say so)
            confirmed = None
            if not a.no_shrink and len(new_lines) < 4:
                try:
                    rc, out = fresh_replay(prop, path)
                    confirmed = (rc == 1 and 'VIOLATION property=%s' % prop in out)
                    if not confirmed and desc is not v['desc']:
                        path = core.write_replay(prop, seed, i, v, '-' + '-'.join(str(c) for c in cls[1:]).replace('@', '_at_').replace('/', '_').replace(':', '_') + '-unminimised')
                        rc, out = fresh_replay(prop, path)
                        confirmed = (rc == 1 and 'VIOLATION property=%s' % prop in out)
                        v2 = v
                    if not confirmed:
                        # the first occurrence may owe its failure to what ran earlier in the same worker process (a
                        # process-global cache in the code under test); look for an occurrence that fails on its own
                        tagp = '-' + '-'.join(str(c) for c in cls[1:]).replace('@', '_at_').replace('/', '_').replace(':', '_')
                        def _hist(v_):
                            c_ = v_['desc'].get('case') if isinstance(v_.get('desc'), dict) else None
                            return isinstance(c_, dict) and (c_.get('prelude') is not None or c_.get('history') is not None)
                        cands = [o for o in occ[1:] if _hist(o[1])][:6] + [o for o in occ[1:] if not _hist(o[1])][:3]
                        for i_o, v_o in cands:
                            path_o = core.write_replay(prop, seed, i_o, v_o, tagp + '-unminimised')
                            rc, out = fresh_replay(prop, path_o)
                            if rc == 1 and 'VIOLATION property=%s' % prop in out:
                                confirmed, path, v2 = True, path_o, v_o
                                break
                            try:
                                os.remove(path_o)
                            except OSError:
                                pass
                except Exception as e:
                    harness.append('fresh replay failed: %r' % (e,))
            v2 = dict(v2)
            v2['_confirmed'] = confirmed
            new_lines.append((cls, len(occ), nrep, path, v2))
    for ln in known_lines:
        print(ln)
    for cls, nocc, nrep, path, v2 in new_lines:
        print('violation class=%s occurrences=%d shrink_replays=%d fresh_replay=%s msg=%s' % (
            list(cls), nocc, nrep, {True: 'reproduced', False: 'NOT-reproduced', None: 'not-run'}[v2.get('_confirmed')], v2['msg']))
        print('VIOLATION property=%s replay=%s' % (prop, path))
    wall = time.time() - t0
    # ---- evidence
    stats = core.merge_stats(results)
    keys = core.distinct_keys(results)
    samples = [r['sample'] for r in results if r['sample'] is not None][:3]
    near = []
    for r in results:
        near.extend(r.get('near', []))
    near.sort(key=lambda x: -x[0])
    evals = stats.get(getattr(mod, 'EVAL_KEY', 'runs'), len(results))
    cov = {
        'evaluations': int(evals),
        'distinct_nontrivial': len(keys),
        'rule': mod.RULE,
        'samples': samples,
        'simulated_runs': len(results),
        'runs_per_hour': int(len(results) / max(wall, 1e-9) * 3600),
        'seeds': {'VERIF_SEED': seed, 'run_index_range': [a.start, a.start + len(results) - 1]},
        'simulated_time': 'n/a (no timers, deadlines or clocks in the system under test)',
        'counters': stats,
        'faults_fired': {k: v for k, v in stats.items() if k.startswith('fault.')},
        'probes': {k: v for k, v in stats.items() if k.startswith('probe.')},
        'near_misses': near[:10],
        'real_components': getattr(mod, 'REAL', []),
        'stub_components': getattr(mod, 'STUB', []),
        'violations_other_properties_seen': dict(others),
        'known_findings_hit': len(known_lines),
        'harness_errors': len(harness),
        'exhaustive': False,
    }
    if hasattr(mod, 'extra_coverage'):
        cov.update(mod.extra_coverage(results, stats, opts))
    overridden = a.runs is not None or a.start != 0 or a.opt or a.time_cap is not None
    if not a.no_evidence and results and (not overridden or a.force_evidence):
        if True:
            core.write_evidence(prop, tier, seed, mod.LEVEL, cov, wall, len(new_lines), list(mod.ASSUMPTIONS) + [
                'in simulator processes numpy.linalg.svd refuses NaN/Inf input at once with LinAlgError (LAPACK can spin forever on it, where no alarm reaches)'])
    print('DONE property=%s runs=%d evaluations=%d distinct=%d violations_new=%d known=%d harness=%d wall=%.1fs' % (
        prop, len(results), evals, len(keys), len(new_lines), len(known_lines), len(harness), wall))
    if harness:
        for h in harness[:5]:
            print('HARNESS: ' + h.strip().replace('\n', '\n  '))
        if not new_lines:
            return 2
    if new_lines:
        return 1
    if len(results) == 0:
        print('HARNESS: no runs completed')
        return 2
    return 0
