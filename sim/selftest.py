"""
Self-tests of the framework (DESIGN.md 3.11).

  check.py selftest determinism [Cxx ...] [--runs N]
      every run index is executed in fresh interpreters under
      {1, 16} workers x PYTHONHASHSEED {0, 12345} (+ a repeat of the first
      configuration); the per-run event-log digests must be identical.

  check.py selftest sensitivity [name ...]
      applies each mutation of /verif/mutants/*.diff to a scratch copy of
      /repo (outside /repo and /verif, removed afterwards) and requires the
      named check to report a violation within its quick budget.

  check.py selftest seeded [id ...]
      the same for the changes written by independent sub-agents under
      /verif/seeded/<id>/ (patch.diff + the checks named in meta.json).
"""
import os
import sys
import json
import glob
import shutil
import tempfile
import subprocess

from sim import core

ALL = ['C01', 'C02', 'C05', 'C06', 'C10', 'C11', 'C12', 'C13', 'C14', 'C17', 'C19']


def run_digests(prop, runs, workers, hashseed, tmpdir, tag, repo=None):
    out = os.path.join(tmpdir, '%s-%s.dig' % (prop, tag))
    env = dict(os.environ)
    env.pop('_VERIF_REEXEC', None)
    env['VERIF_HASHSEED'] = str(hashseed)
    if repo:
        env['VERIF_REPO'] = repo
    cmd = [sys.executable, os.path.join(core.VERIF, 'check.py'), prop, '--runs', str(runs), '--workers', str(workers),
           '--no-evidence', '--no-shrink', '--digests', out]
    p = subprocess.run(cmd, capture_output=True, text=True, env=env, timeout=3600)
    if not os.path.exists(out):
        return None, p.stdout[-2000:] + p.stderr[-2000:]
    with open(out) as f:
        return f.read(), None


def determinism(props, runs):
    tmpdir = tempfile.mkdtemp(prefix='verif-selftest-')
    bad = 0
    try:
        for prop in props:
            configs = [(1, 0, 'w1-h0'), (16, 0, 'w16-h0'), (16, 12345, 'w16-h12345'), (1, 12345, 'w1-h12345'), (16, 0, 'w16-h0-again')]
            ref = None
            ok = True
            for workers, hs, tag in configs:
                d, err = run_digests(prop, runs, workers, hs, tmpdir, tag)
                if d is None:
                    print('DETERMINISM %s %s: no digests (%s)' % (prop, tag, (err or '').strip()[-300:]))
                    ok = False
                    continue
                if ref is None:
                    ref = d
                elif d != ref:
                    a = ref.splitlines()
                    b = d.splitlines()
                    diff = [i for i, (x, y) in enumerate(zip(a, b)) if x != y]
                    print('DETERMINISM %s %s: %d of %d run digests differ (first: run %s)' % (prop, tag, len(diff) + abs(len(a) - len(b)), len(a), diff[:5]))
                    ok = False
            n = len(ref.splitlines()) if ref else 0
            print('DETERMINISM %s: %s (%d runs x %d configurations)' % (prop, 'identical' if ok else 'DIFFERENT', n, len(configs)))
            if not ok:
                bad += 1
    finally:
        shutil.rmtree(tmpdir, ignore_errors=True)
    return 1 if bad else 0


def sensitivity(names):
    """Each /verif/mutants/<name>.diff has a header line '# check: Cxx [--opt ...]'."""
    mdir = os.path.join(core.VERIF, 'mutants')
    files = sorted(glob.glob(os.path.join(mdir, '*.diff')))
    if names:
        files = [f for f in files if os.path.basename(f)[:-5] in names]
    missed = 0
    for f in files:
        name = os.path.basename(f)[:-5]
        with open(f) as fh:
            head = fh.readline().strip()
        if not head.startswith('# check:'):
            print('SENSITIVITY %s: no "# check:" header' % name)
            missed += 1
            continue
        checks = head[len('# check:'):].split()
        scratch = tempfile.mkdtemp(prefix='verif-mutant-')
        try:
            repo = os.path.join(scratch, 'repo')
            subprocess.run(['git', '-C', core.REPO, 'worktree', 'add', '--detach', '-f', repo, 'HEAD'], capture_output=True, check=True)
            try:
                # carry uncommitted edits of /repo too (checks run against the working tree)
                d = subprocess.run(['git', '-C', core.REPO, 'diff', 'HEAD'], capture_output=True, text=True).stdout
                if d.strip():
                    subprocess.run(['git', '-C', repo, 'apply'], input=d, text=True, check=True)
                pr = subprocess.run(['git', '-C', repo, 'apply', f], capture_output=True, text=True)
                if pr.returncode != 0:
                    print('SENSITIVITY %s: patch does not apply: %s' % (name, pr.stderr.strip()[:200]))
                    missed += 1
                    continue
                caught = []
                for prop in checks:
                    env = dict(os.environ)
                    env.pop('_VERIF_REEXEC', None)
                    env['VERIF_REPO'] = repo
                    env['VERIF_REPLAY_DIR'] = os.path.join(scratch, 'replays')
                    p = subprocess.run([sys.executable, os.path.join(core.VERIF, 'check.py'), prop, '--no-evidence'], capture_output=True, text=True, env=env, timeout=3600)
                    if p.returncode == 1 and 'VIOLATION property=%s' % prop in p.stdout:
                        caught.append(prop)
                    elif p.returncode == 2:
                        print('SENSITIVITY %s: %s exited 2 (harness): %s' % (name, prop, p.stdout.strip()[-300:]))
                print('SENSITIVITY %s: %s' % (name, ('caught by ' + ','.join(caught)) if caught else 'MISSED by ' + ','.join(checks)))
                if not caught:
                    missed += 1
            finally:
                subprocess.run(['git', '-C', core.REPO, 'worktree', 'remove', '--force', repo], capture_output=True)
        finally:
            shutil.rmtree(scratch, ignore_errors=True)
    return 1 if missed else 0


def seeded(names):
    """Re-run, for every /verif/seeded/<id>, the checks named in its meta.json against a scratch worktree carrying its
    patch; every seeded change must be reported by at least one of them."""
    sdir = os.path.join(core.VERIF, 'seeded')
    ids = sorted(d for d in os.listdir(sdir) if os.path.isdir(os.path.join(sdir, d)))
    if names:
        ids = [i for i in ids if i in names]
    missed = 0
    for sid in ids:
        meta = json.load(open(os.path.join(sdir, sid, 'meta.json')))
        checks = meta['confirmed']['checks_run']
        scratch = tempfile.mkdtemp(prefix='verif-seeded-')
        repo = os.path.join(scratch, 'repo')
        try:
            subprocess.run(['git', '-C', core.REPO, 'worktree', 'add', '--detach', '-f', repo, 'HEAD'], capture_output=True, check=True)
            try:
                pr = subprocess.run(['git', '-C', repo, 'apply', os.path.join(sdir, sid, 'patch.diff')], capture_output=True, text=True)
                if pr.returncode != 0:
                    print('SEEDED %s: patch does not apply to the current tree: %s' % (sid, pr.stderr.strip()[:160]))
                    missed += 1
                    continue
                caught = []
                for prop in checks:
                    env = dict(os.environ)
                    env.pop('_VERIF_REEXEC', None)
                    env['VERIF_REPO'] = repo
                    env['VERIF_REPLAY_DIR'] = os.path.join(scratch, 'replays')
                    p = subprocess.run([sys.executable, os.path.join(core.VERIF, 'check.py'), prop, '--no-evidence'], capture_output=True, text=True, env=env, timeout=3600)
                    if p.returncode == 1 and 'VIOLATION property=%s' % prop in p.stdout:
                        caught.append(prop)
                print('SEEDED %s: %s' % (sid, ('caught by ' + ','.join(caught)) if caught else 'MISSED by ' + ','.join(checks)))
                sys.stdout.flush()
                if not caught:
                    missed += 1
            finally:
                subprocess.run(['git', '-C', core.REPO, 'worktree', 'remove', '--force', repo], capture_output=True)
        finally:
            shutil.rmtree(scratch, ignore_errors=True)
    return 1 if missed else 0


def main(argv):
    if not argv:
        print(__doc__)
        return 2
    what = argv[0]
    rest = argv[1:]
    runs = 64
    if '--runs' in rest:
        k = rest.index('--runs')
        runs = int(rest[k + 1])
        rest = rest[:k] + rest[k + 2:]
    if what == 'determinism':
        return determinism(rest or ALL, runs)
    if what == 'sensitivity':
        return sensitivity(rest)
    if what == 'seeded':
        return seeded(rest)
    print(__doc__)
    return 2
