"""Named predicates used by known_findings.json entries (`match.pred`).
Each takes the (minimised) violation dict and returns True when the violation
is the listed finding."""


def _last_step(v):
    tr = v.get('desc', {}).get('trace') or []
    return tr[-1] if tr else {}


def dmrg_cross_core_blowup(v):
    """K1: dmrg_cross / function_interpolate on an exactly low-rank target: a core of the result holds entries ~1e15 times larger than any entry
    of the target (inverse of a numerically singular P factor)."""
    ex = v.get('extra') or {}
    return ex.get('target') in ('tt', 'square') and ex.get('core_blowup', 0) >= 1e10
