"""Named predicates used by known_findings.json entries (`match.pred`).
Each takes the (minimised) violation dict and returns True when the violation
is the listed finding."""


def _last_step(v):
    tr = v.get('desc', {}).get('trace') or []
    return tr[-1] if tr else {}
