#!/bin/bash
# usage: tools_verify_seeded.sh <dir with patch.diff demo.py> <check ids...>
# Confirms a seeded change in a scratch worktree: demo fails with it and passes without, test suite passes with it,
# then runs the named checks against the patched tree (VERIF_REPO) and reports which ones raise a VIOLATION.
set -u
SRC=$1; shift
WT=$(mktemp -d /tmp/wt_verify_XXXX)
git -C /repo worktree add --detach -f $WT HEAD >/dev/null 2>&1
mkdir -p $WT/_seeded/x; cp $SRC/demo.py $WT/_seeded/x/demo.py
cd $WT
echo "== demo on clean tree"; PYTHONPATH=$WT OMP_NUM_THREADS=1 /venv/bin/python _seeded/x/demo.py >$WT/_demo_clean.log 2>&1; echo "exit=$? $(tail -1 $WT/_demo_clean.log)"
if ! git apply $SRC/patch.diff; then echo "PATCH DOES NOT APPLY"; fi
echo "== demo on patched tree"; PYTHONPATH=$WT OMP_NUM_THREADS=1 /venv/bin/python _seeded/x/demo.py >$WT/_demo_patched.log 2>&1; echo "exit=$? $(tail -1 $WT/_demo_patched.log)"
if [ "${SKIP_TESTS:-0}" != "1" ]; then
echo "== test suite on patched tree"; OMP_NUM_THREADS=1 MKL_NUM_THREADS=1 timeout 2400 /venv/bin/python -m pytest -q -p no:cacheprovider --timeout=900 -n ${NPROC:-8} 2>&1 | tail -2
fi
for c in "$@"; do
  echo "== check $c on patched tree"
  (cd /verif && VERIF_REPO=$WT VERIF_REPLAY_DIR=$WT/_replays timeout 1800 /venv/bin/python check.py $c --no-evidence 2>&1 | grep -E "^(DONE|VIOLATION|violation|KNOWN|HARNESS)" | cut -c1-300)
done
cd /; git -C /repo worktree remove --force $WT; rm -rf $WT
