#!/venv/bin/python
"""Entry point: check.py <Cxx> [--tier quick|thorough] [--replay file] ..."""
import os
import sys

sys.path.insert(0, os.path.dirname(os.path.abspath(__file__)))
from sim import core  # noqa: E402

core.ensure_env()


def main():
    if len(sys.argv) < 2:
        print('usage: check.py <Cxx|selftest> [options]')
        return 2
    what = sys.argv[1]
    if what == 'selftest':
        from sim import selftest
        return selftest.main(sys.argv[2:])
    from sim import driver
    return driver.main('sim.props.' + what.lower(), sys.argv[2:])


if __name__ == '__main__':
    sys.exit(main())
